#!/venv/bin/python
"""Sensitivity plan of DESIGN.md section 4: textual mutants of /repo (applied to the scratch worktree only) and the quick
check that must catch each.  tools/sensitivity.py [filter]   prints DETECTED / MISSED per mutant."""
import os, subprocess, sys
ROOT = os.path.dirname(os.path.dirname(os.path.abspath(__file__)))
M = [
 ("C05", "del-neg-step-not-reversed", "traits/trait_list_object.py",
  "            if reversed:\n                removed = removed[::-1]\n            self.notify(normalized_key, removed, [])",
  "            self.notify(normalized_key, removed, [])"),
 ("C05", "insert-index-not-clamped", "traits/trait_list_object.py", "            normalized_index = min(index, len(self))", "            normalized_index = index"),
 ("C06", "pop-default-notifies-on-miss", "traits/trait_dict_object.py", "        should_notify = (value is Undefined or key in self)", "        should_notify = True"),
 ("C06", "setitem-reports-update-as-added", "traits/trait_dict_object.py",
  "        removed = {}\n        validated_key = self.key_validator(key)\n        validated_value = self.value_validator(value)\n\n        if validated_key in self:\n            changed = {validated_key: self[validated_key]}\n            added = {}",
  "        removed = {}\n        validated_key = self.key_validator(key)\n        validated_value = self.value_validator(value)\n\n        if validated_key in self:\n            changed = {}\n            added = {validated_key: validated_value}"),
 ("C07", "add-notifies-when-present", "traits/trait_set_object.py", "        if not value_in_self:\n            self.notify(set(), {value})", "        self.notify(set(), {value})"),
 ("C07", "ixor-does-not-validate", "traits/trait_set_object.py",
  "            validated_added = {self.item_validator(item) for item in\n                               raw_added}", "            validated_added = set(raw_added)"),
 ("C04", "list-iadd-skips-validator", "traits/trait_list_object.py",
  "        added = [self.item_validator(item) for item in value]\n        extended = super().__iadd__(added)", "        added = list(value)\n        extended = super().__iadd__(added)"),
 ("C02", "c-identity-prefilter-dropped", "traits/ctraits.c",
  "        if (!changed) {\n            changed = (old_value != value);\n        }\n    }\n\n    if (PyDict_SetItem(dict, name, new_value) < 0) {",
  "        if (!changed) {\n            changed = 1;\n        }\n    }\n\n    if (PyDict_SetItem(dict, name, new_value) < 0) {"),
 ("C02", "observe-equality-filter-dropped", "traits/observation/_has_traits_helpers.py",
  "            return bool(event.old == event.new)\n        except Exception:", "            return False\n        except Exception:"),
 ("C02", "observe-default-read-not-filtered", "traits/observation/_has_traits_helpers.py",
  "    if event.old is Uninitialized:\n        return True\n\n    ctrait = event.object.trait(event.name)", "    ctrait = event.object.trait(event.name)"),
 ("C08", "list-maintainer-never-unhooks", "traits/observation/_list_item_observer.py", "    for removed_item in event.removed:", "    for removed_item in []:"),
 ("C08", "add_to-without-refcount", "traits/observation/_trait_event_notifier.py", "                other._ref_count += 1", "                pass"),
 ("C09", "notifier-holds-target-strongly", "traits/observation/_trait_event_notifier.py",
  "        self.target = weakref.ref(target)", "        self.target = (lambda t: (lambda: t))(target)"),
 ("C10", "list-copy-default-shared", "traits/ctraits.c",
  "        case LIST_COPY_DEFAULT_VALUE:\n            return PySequence_List(trait->default_value);",
  "        case LIST_COPY_DEFAULT_VALUE:\n            Py_INCREF(trait->default_value);\n            return trait->default_value;"),
 ("C12", "property-cache-not-popped", "traits/has_traits.py",
  "            old = instance.__dict__.pop(cache_name, Undefined)", "            old = instance.__dict__.get(cache_name, Undefined)"),
 ("C13", "prefixes-sorted-shortest-first", "traits/has_traits.py", "    prefix_list.sort(key=len, reverse=True)", "    prefix_list.sort(key=len)"),
 ("C15", "notify-flag-inverted-in-series", "traits/observation/parsing.py", '    notify_left = connector.data == "notify"', '    notify_left = connector.data != "notify"'),
 ("C17", "cycle-guard-dropped", "traits/adaptation/adaptation_manager.py", "                    if offer not in path:", "                    if True:"),
 ("C17", "heap-weight-order-swapped", "traits/adaptation/adaptation_manager.py",
  "                    new_weight = (\n                        adapter_weight + 1,\n                        mro_weight + mro_distance,",
  "                    new_weight = (\n                        mro_weight + mro_distance,\n                        adapter_weight + 1,"),
 ("C20", "sync-lock-test-dropped-for-lists", "traits/has_traits.py",
  "            if object_name not in object._get_sync_trait_info()[\"\"]:\n                try:\n                    if index.step is None or event.added:",
  "            if True:\n                try:\n                    if index.step is None or event.added:"),
 ("C14", "deepcopy-shares-list-items", "traits/trait_list_object.py",
  "        return TraitListObject(\n            self.trait,\n            None,\n            self.name,\n            [copy.deepcopy(x, memo) for x in self],",
  "        return TraitListObject(\n            self.trait,\n            None,\n            self.name,\n            [x for x in self],"),
 ("C16", "legacy-list-handler-never-unregisters", "traits/traits_listener.py", "        for item in old:\n            self.next.unregister(item)", "        for item in []:\n            self.next.unregister(item)"),
 ("C19", "list-extend-stores-before-validating-all", "traits/trait_list_object.py",
  "        added = [self.item_validator(item) for item in iterable]\n        super().extend(added)",
  "        added = []\n        for item in iterable:\n            added.append(self.item_validator(item))\n            super().append(added[-1])"),
 ("C18", "tuple-validator-leaks-a-reference", "traits/ctraits.c",
  "                else {\n                    Py_DECREF(aitem);\n                }\n            }\n            if (tuple != NULL) {\n                return tuple;", "                else {\n                }\n            }\n            if (tuple != NULL) {\n                return tuple;"),
 ("C03", "compound-instance-none-case-lost", "traits/ctraits.c",
  "            case 1: { /* Instance check: */\n                Py_ssize_t kind = PyTuple_GET_SIZE(type_info);\n                if (((kind == 3) && (value == Py_None))\n                    ||",
  "            case 1: { /* Instance check: */\n                Py_ssize_t kind = PyTuple_GET_SIZE(type_info);\n                if ((0 && (kind == 3) && (value == Py_None))\n                    ||"),
 ("C01", "int-range-exclusive-high-off-by-one", "traits/trait_types.py",
  "            value = _validate_int(value)\n        except TypeError:\n            self.error(object, name, original_value)\n\n        if (\n            (\n                (self._low is None)\n                or (self._exclude_low and (self._low < value))\n                or ((not self._exclude_low) and (self._low <= value))\n            )\n            and (\n                (self._high is None)\n                or (self._exclude_high and (self._high > value))",
  "            value = _validate_int(value)\n        except TypeError:\n            self.error(object, name, original_value)\n\n        if (\n            (\n                (self._low is None)\n                or (self._exclude_low and (self._low < value))\n                or ((not self._exclude_low) and (self._low <= value))\n            )\n            and (\n                (self._high is None)\n                or (self._exclude_high and (self._high >= value))"),
 ("C11", "getattr-delegate-prefix-ignored", "traits/ctraits.c", "XXXX-not-used", "XXXX"),
]
flt = sys.argv[1] if len(sys.argv) > 1 else ""
for prop, name, f, old, new in M:
    if flt and flt not in prop + name:
        continue
    if old.startswith("XXXX"):
        continue
    r = subprocess.run([os.path.join(ROOT, "tools", "trymut.py"), prop, f, old, new], capture_output=True, text=True)
    first = r.stdout.strip().splitlines()[0] if r.stdout.strip() else r.stderr[-200:]
    print("%-4s %-45s %s" % (prop, name, first), flush=True)
