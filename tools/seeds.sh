#!/bin/bash
# tools/seeds.sh "2 3 4" [ids...]   - run quick checks at several seeds on the unchanged tree; print every non-zero exit
cd "$(dirname "$0")/.."
seeds="$1"; shift
ids="${@:-C01 C02 C03 C04 C05 C06 C07 C08 C09 C10 C11 C12 C13 C14 C15 C16 C17 C18 C19 C20}"
for s in $seeds; do for id in $ids; do
  out=$(VERIF_SEED=$s VERIF_NO_EVIDENCE=1 ./check $id quick 2>&1); rc=$?
  line=$(echo "$out" | grep -E "^C[0-9]+ quick" | head -1)
  if [ $rc -ne 0 ]; then echo "!! seed=$s $id rc=$rc"; echo "$out" | grep -E "bucket|VIOLATION|HARNESS" | head -6; else echo "ok seed=$s $line" | cut -c1-110; fi
done; done
