#!/venv/bin/python
"""Sensitivity helper: apply a textual mutation (or a patch file) to a scratch worktree of /repo's HEAD
and run one or more quick checks against it.

  tools/trymut.py C04 traits/trait_list_object.py 'OLD' 'NEW'         (python str.replace, must match once)
  tools/trymut.py C04,C05 --patch /path/to/patch.diff

The scratch worktree lives in /var/tmp/mutwt (outside /repo and /verif) and is reset afterwards.
"""
import os, subprocess, sys, shutil
WT = "/var/tmp/mutwt"
ROOT = os.path.dirname(os.path.dirname(os.path.abspath(__file__)))

def sh(*a, **k):
    return subprocess.run(a, capture_output=True, text=True, **k)

def main():
    props = sys.argv[1].split(",")
    if not os.path.isdir(WT):
        r = sh("git", "-C", "/repo", "worktree", "add", "-f", "--detach", WT, "HEAD")
        if r.returncode: print(r.stderr); return 2
    sh("git", "-C", WT, "checkout", "-q", "--detach", sh("git", "-C", "/repo", "rev-parse", "HEAD").stdout.strip())
    sh("git", "-C", WT, "checkout", "--", ".")
    shutil.copy("/repo/traits/version.py", WT + "/traits/version.py")
    if sys.argv[2] == "--patch":
        r = sh("git", "-C", WT, "apply", sys.argv[3])
        if r.returncode: print("PATCH DOES NOT APPLY", r.stderr); return 3
    else:
        f, old, new = sys.argv[2:5]
        p = os.path.join(WT, f)
        s = open(p).read()
        if s.count(old) != 1: print("pattern matches %d times" % s.count(old)); return 3
        open(p, "w").write(s.replace(old, new))
    tier = os.environ.get("TIER", "quick")
    rc_all = 0
    for prop in props:
        env = dict(os.environ, VERIF_REPO_ROOT=WT, VERIF_NO_EVIDENCE="1")
        r = sh(os.path.join(ROOT, "check"), prop, tier, env=env, cwd=ROOT)
        lines = [l for l in r.stdout.splitlines() if l.startswith(("VIOLATION", "  bucket", "KNOWN"))]
        print("%s: rc=%d %s" % (prop, r.returncode, "DETECTED" if r.returncode == 1 else "MISSED" if r.returncode == 0 else "HARNESS-ERROR"))
        for l in lines[:6]: print("   ", l)
        if r.returncode == 2: print(r.stderr[-1500:])
    sh("git", "-C", WT, "checkout", "--", ".")
    return 0

sys.exit(main())
