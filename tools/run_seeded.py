#!/venv/bin/python
"""Run every kept seeded change against the quick check(s) of its property (and optionally others) and print a table.
   tools/run_seeded.py [name-prefix] ; updates seeded/<name>/meta.json 'last_run'."""
import json, os, subprocess, sys, shutil, time
ROOT = os.path.dirname(os.path.dirname(os.path.abspath(__file__)))
WT = os.environ.get("VERIF_MUTWT", "/var/tmp/mutwt")
def sh(*a, **k): return subprocess.run(a, capture_output=True, text=True, **k)
def reset():
    if not os.path.isdir(WT):
        sh("git", "-C", "/repo", "worktree", "add", "-f", "--detach", WT, "HEAD")
    head = sh("git", "-C", "/repo", "rev-parse", "HEAD").stdout.strip()
    sh("git", "-C", WT, "checkout", "-q", "--detach", head); sh("git", "-C", WT, "checkout", "--", ".")
    shutil.copy("/repo/traits/version.py", WT + "/traits/version.py")
pre = sys.argv[1] if len(sys.argv) > 1 else ""
rows = []
for name in sorted(os.listdir(os.path.join(ROOT, "seeded"))):
    d = os.path.join(ROOT, "seeded", name)
    if not os.path.isdir(d) or pre not in name: continue          # (substring filter: "C08", "-r3", ...)
    meta = json.load(open(os.path.join(d, "meta.json")))
    reset()
    r = sh("git", "-C", WT, "apply", os.path.join(d, "patch.diff"))
    if r.returncode:
        # later "fix:" commits may have moved the lines: three-way merge, then fuzzy context, before giving up
        r = sh("git", "-C", WT, "apply", "-3", os.path.join(d, "patch.diff"))
        unmerged = sh("git", "-C", WT, "diff", "--name-only", "--diff-filter=U").stdout.strip()
        sh("git", "-C", WT, "reset", "-q")
        if r.returncode or unmerged:
            reset()
            r = subprocess.run(["patch", "-p1", "-F3", "-s", "-i", os.path.join(d, "patch.diff")], cwd=WT, capture_output=True, text=True)
    if r.returncode:
        reset()
        meta["stale_note"] = ("patch.diff no longer applies to the repaired tree (a later fix: commit rewrote the lines it touches); "
                              "'last_run' is the last head it was run against")
        json.dump(meta, open(os.path.join(d, "meta.json"), "w"), indent=1)
        rows.append((name, "PATCH DOES NOT APPLY")); print(rows[-1], flush=True); continue
    res = {}
    for c in sorted(set([meta["property"]] + meta.get("also_check", []))):
        t0 = time.time()
        r = sh(os.path.join(ROOT, "check"), c, "quick", env=dict(os.environ, VERIF_REPO_ROOT=WT), cwd=ROOT)
        res[c] = {"exit": r.returncode, "wall_s": round(time.time() - t0, 1),
                  "buckets": sorted({l.strip().split(" stage=")[0].replace("bucket=", "") for l in r.stdout.splitlines() if l.startswith("  bucket")})[:4]}
    meta["last_run"] = {"repo_head": sh("git", "-C", "/repo", "rev-parse", "--short", "HEAD").stdout.strip(), "results": res}
    meta["detected_by"] = [c for c, v in res.items() if v["exit"] == 1]
    json.dump(meta, open(os.path.join(d, "meta.json"), "w"), indent=1)
    rows.append((name, " ".join("%s:%s%s" % (c, {0: "MISSED", 1: "DETECTED", 2: "HARNESS-ERROR"}.get(v["exit"], v["exit"]), v["buckets"][:2]) for c, v in res.items())))
    print(rows[-1], flush=True)
reset()
