#!/venv/bin/python
"""Confirm a seeded change independently, then (optionally) store it under seeded/<name>/.

  tools/verify_seeded.py <dir with patch.diff demo.py notes.md> <PROPERTY> <name> [--checks C05,C06]

Steps (all in the scratch worktree /var/tmp/mutwt, never in /repo):
  1. clean tree: demo must exit 0
  2. apply patch (rebuild ctraits if touched): demo must exit non-zero, the full existing suite must stay green
  3. run the named quick checks against the changed tree (VERIF_REPO_ROOT) and report DETECTED / MISSED
  4. write seeded/<name>/{patch.diff,demo.py,notes.md,meta.json}
"""
import json, os, shutil, subprocess, sys, time
WT = os.environ.get("VERIF_MUTWT", "/var/tmp/mutwt")
ROOT = os.path.dirname(os.path.dirname(os.path.abspath(__file__)))
PY = "/venv/bin/python"

def sh(*a, **k):
    return subprocess.run(a, capture_output=True, text=True, **k)

def reset():
    if not os.path.isdir(WT):
        sh("git", "-C", "/repo", "worktree", "add", "-f", "--detach", WT, "HEAD")
    head = sh("git", "-C", "/repo", "rev-parse", "HEAD").stdout.strip()
    sh("git", "-C", WT, "checkout", "-q", "--detach", head)
    sh("git", "-C", WT, "checkout", "--", ".")
    shutil.copy("/repo/traits/version.py", WT + "/traits/version.py")

def build():
    r = sh(PY, "setup.py", "build_ext", "--inplace", cwd=WT)
    shutil.rmtree(WT + "/build", ignore_errors=True)
    return r.returncode == 0

def demo(path):
    env = dict(os.environ, PYTHONPATH=WT, PYTHONDONTWRITEBYTECODE="1")
    r = subprocess.run([PY, path], cwd=WT, env=env, capture_output=True, text=True, timeout=600)
    return r.returncode, (r.stdout + r.stderr)[-600:]

def main():
    src, prop, name = sys.argv[1:4]
    checks = [prop]
    if "--checks" in sys.argv:
        checks = sys.argv[sys.argv.index("--checks") + 1].split(",")
    patch = os.path.join(src, "patch.diff")
    touches_c = "ctraits.c" in open(patch).read()
    reset()
    so = [f for f in os.listdir(WT + "/traits") if f.startswith("ctraits.") and f.endswith(".so")]
    if not so or touches_c:
        build()
    os.makedirs(os.path.join(WT, "MUTANTS", "m0"), exist_ok=True)     # same relative layout the demos were written for
    dpath = os.path.join(WT, "MUTANTS", "m0", "demo.py")
    shutil.copy(os.path.join(src, "demo.py"), dpath)
    # demos written in a sub-agent's own worktree may assert that `traits` was imported from THAT path: point it here
    import re
    txt = open(dpath).read()
    txt2 = re.sub(r"/tmp/wt\d+/C\d\d", WT, txt)
    if txt2 != txt:
        open(dpath, "w").write(txt2)
    meta = {"property": prop, "name": name, "ran": []}
    rc0, out0 = demo(dpath)
    meta["ran"].append({"cmd": "demo.py on the unchanged tree", "exit": rc0})
    r = sh("git", "-C", WT, "apply", patch)
    if r.returncode:
        print("PATCH DOES NOT APPLY:", r.stderr); return 3
    if touches_c and not build():
        print("BUILD FAILED"); return 3
    rc1, out1 = demo(dpath)
    meta["ran"].append({"cmd": "demo.py with the change", "exit": rc1, "tail": out1[-300:]})
    t0 = time.time()
    r = sh(PY, "-m", "pytest", "-q", "-p", "no:cacheprovider", "--timeout=900", cwd=WT)
    tail = r.stdout.strip().splitlines()[-1] if r.stdout.strip() else r.stderr[-200:]
    green = "1618 passed" in tail and "failed" not in tail and "error" not in tail
    meta["ran"].append({"cmd": "full existing suite with the change", "result": tail, "wall_s": round(time.time() - t0)})
    shutil.rmtree(os.path.join(WT, "MUTANTS"), ignore_errors=True)
    ok = rc0 == 0 and rc1 != 0 and green
    print("clean demo exit=%d  changed demo exit=%d  suite: %s  => %s" % (rc0, rc1, tail, "CONFIRMED" if ok else "REJECTED"))
    if not ok:
        print(out0[-300:] if rc0 else out1[-300:])
    det = {}
    if ok:
        for c in checks:
            env = dict(os.environ, VERIF_REPO_ROOT=WT)
            r = sh(os.path.join(ROOT, "check"), c, os.environ.get("TIER", "quick"), env=env, cwd=ROOT)
            det[c] = {"exit": r.returncode,
                      "buckets": [l.strip() for l in r.stdout.splitlines() if l.startswith("  bucket")][:5]}
            print("  check %s: rc=%d %s %s" % (c, r.returncode, "DETECTED" if r.returncode == 1 else "MISSED" if r.returncode == 0 else "HARNESS-ERROR", det[c]["buckets"][:2]))
            if r.returncode == 2: print(r.stderr[-800:])
        meta["checks"] = det
        meta["detected_by"] = [c for c, d in det.items() if d["exit"] == 1]
        dst = os.path.join(ROOT, "seeded", name)
        os.makedirs(dst, exist_ok=True)
        for f in ("patch.diff", "demo.py", "notes.md"):
            if os.path.exists(os.path.join(src, f)):
                shutil.copy(os.path.join(src, f), dst)
        old = {}
        mp = os.path.join(dst, "meta.json")
        if os.path.exists(mp):
            old = json.load(open(mp))
        old.update(meta)
        json.dump(old, open(mp, "w"), indent=1)
    reset()
    if touches_c:
        build()
    return 0 if ok else 1

sys.exit(main())
