#!/venv/bin/python
"""Prepare a round of independently seeded breaking changes.

  tools/mkround.py <round-number> <base-dir, e.g. /tmp/wt6> [IDs...]

For every property: a scratch git worktree of /repo at <base>/<ID> (built extension and version.py copied in) and a
prompt <base>/prompt_<ID>.txt that contains ONLY the property text, the task, and a one-line list of the mechanisms
earlier rounds already used for that property (taken from seeded/*/meta.json 'change'), so that the next sub-agent looks
elsewhere.  Nothing from /verif goes into the worktree.  The sub-agents deliver <base>/<ID>/MUTANTS/m1|m2.
"""
import glob, json, os, re, shutil, subprocess, sys

ROOT = os.path.dirname(os.path.dirname(os.path.abspath(__file__)))
T = '''You are helping evaluate a verification effort for the Python library enthought/traits (typed, validated, observable class attributes; C extension `traits/ctraits.c`). Your job is to play the role of a developer who introduces a subtle regression.

You have your own scratch git worktree of the repository at {wt} (already built; `traits/version.py` is present). Work ONLY inside that directory. Do NOT read, list or use anything under /verif, /var/tmp or /repo, and do not look at other directories under {base}. Nothing needs network access (there is none).

The semantic property under study (this is all the context you get about the verification effort):

  TITLE: {title}

  STATEMENT: {statement}

  QUANTIFIED OVER: {quant}

TASK: produce TWO independent, realistic changes to the library source (under {wt}/traits, NOT the tests) that each BREAK this property while
  (a) the package still compiles/imports, and
  (b) the ENTIRE existing test suite still passes, unedited: run it from the worktree root with
        cd {wt} && /venv/bin/python -m pytest -q -p no:cacheprovider --timeout=900 -x
      (1618 tests pass on the unmodified tree, takes ~40 s; running from the worktree root makes `import traits` resolve to the worktree). If you edit traits/ctraits.c rebuild first with
        cd {wt} && /venv/bin/python setup.py build_ext --inplace && rm -rf build
  (c) the breakage needs something SPECIFIC to manifest - a multi-step sequence of operations, an unusual input or option combination, a particular position/index/size, an error path, a fault at a particular point, or two cooperating sites that each look fine alone. Do NOT make changes that ordinary use would expose at once (those would also fail the test suite). Think of the kind of bug a plausible refactoring, optimisation or "clean-up" commit would introduce: an off-by-one in a boundary case, a dropped guard, a cache not invalidated on one path, a wrong variable in an error path, a condition that is subtly too weak/strong, state not restored after an exception, etc.
  The two changes should use different mechanisms / touch different code paths relevant to the property.
{excl}
For EACH change i in (1, 2) deliver, inside the directory {wt}/MUTANTS/m<i>/ :
  - patch.diff : output of `git diff` for that change alone (relative to the unmodified worktree HEAD; must apply with `git apply` on a clean checkout). Only library source files, no test edits.
  - demo.py    : a small stand-alone program (plain Python, no pytest needed) that exits with status 0 on the UNMODIFIED tree and with a non-zero status (failed assert / printed explanation) WITH the change applied, demonstrating that the property is violated. It is run as `cd {wt} && PYTHONPATH={wt} /venv/bin/python MUTANTS/m<i>/demo.py` (PYTHONPATH makes `import traits` pick up the worktree - a bare `python MUTANTS/...` would import the installed copy; let the demo assert that `traits.__file__` lies under {wt}).
  - notes.md   : 5-15 lines: what the change does, why it breaks the property, what exactly is needed for it to manifest, and the exact commands you ran with their outcome (full test suite result with the change, demo result with and without the change).

PROCEDURE per change: start from a clean tree (`git -C {wt} checkout -- traits` ), make the change, rebuild if C, run the full suite (must be green - if any test fails, revise the change, do not touch tests), run demo.py (must fail), save `git diff -- traits > MUTANTS/m<i>/patch.diff`, then revert (`git checkout -- traits`, rebuild if C) and confirm demo.py passes on the clean tree. Leave the worktree clean (reverted, rebuilt) at the end; the MUTANTS directory is untracked and stays.

If, while probing the UNMODIFIED tree, you notice behaviour that already violates the property, mention it in a few sentences at the very end of your summary, with the smallest program that shows it (do not fix it, do not use it for your changes).

Finish by replying with a short summary: for each change, one paragraph (file/function changed, trigger condition) and confirmation of the three checks (suite green with change, demo fails with change, demo passes without). Be honest if you could not achieve one of them.
'''


def main():
    rnd, base = sys.argv[1], sys.argv[2]
    props = {json.loads(l)["id"]: json.loads(l) for l in open(os.path.join(ROOT, "properties.jsonl"))}
    ids = sys.argv[3:] or sorted(props)
    os.makedirs(base, exist_ok=True)
    for pid in ids:
        p = props[pid]
        used = []
        for m in sorted(glob.glob(os.path.join(ROOT, "seeded", pid + "-*", "meta.json"))):
            c = json.load(open(m)).get("change", "")
            c = re.sub(r"\s+", " ", c).strip().rstrip(".")
            if c:
                used.append(c[:160])
        excl = ""
        if used:
            excl = ("\n%d other developers already tried the following ideas, so do NOT reuse these mechanisms or the same code spots "
                    "(look for DIFFERENT functions, options, trait types, argument kinds, error paths and code paths relevant to the "
                    "property - the less obvious corners): %s.\n" % (len(used), "; ".join("(%d) %s" % (i + 1, c) for i, c in enumerate(used))))
        wt = os.path.join(base, pid)
        open(os.path.join(base, "prompt_%s.txt" % pid), "w").write(
            T.format(wt=wt, base=base, title=p["title"], statement=p["statement"], quant=p["quantifier"]["text"], excl=excl))
        if not os.path.isdir(wt):
            r = subprocess.run(["git", "-C", "/repo", "worktree", "add", "-f", "--detach", wt, "HEAD"], capture_output=True, text=True)
            if r.returncode:
                print(r.stderr)
        shutil.copy("/repo/traits/version.py", wt + "/traits/version.py")
        for so in glob.glob("/repo/traits/ctraits*.so"):
            shutil.copy(so, wt + "/traits/")
    print("round", rnd, "prepared under", base, "for", " ".join(ids))


if __name__ == "__main__":
    main()
