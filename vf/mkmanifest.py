"""Regenerate MANIFEST.json from the property modules that exist (python -P vf/mkmanifest.py)."""
import json
import os

ROOT = os.path.dirname(os.path.dirname(os.path.abspath(__file__)))

# id -> (category, technique, text, note, design_ref)
CHECKS = {}


def reg(pid, category, technique, text, note, ref):
    CHECKS[pid] = dict(category=category, technique=technique, text=text, note=note, ref=ref)


NOT_BUILT = "check not built yet in this session (planned in DESIGN.md section 3); it will be claimed once its harness exists and is quiet on the unchanged tree"

BASE_NOTE = ("Trusted: CPython 3.12 builtins used as reference models, Hypothesis' generators, the overlay build "
             "(symlinks to /repo/traits + ctraits.c compiled from the working tree with gcc). ")

reg("C05", "exploration",
    "exhaustive enumeration of (length, mutator, index/slice) + Hypothesis op histories vs builtin-list model and event replay law",
    "Every int index / slice / replacement length within the stated bounds is enumerated for every index-taking "
    "mutator (exhaustive inside the bounds), plus generated histories with coercing and rejecting validators; each "
    "operation is compared with a builtin list and its event is replayed on the pre-state. Absence outside the bounds "
    "is not shown.",
    BASE_NOTE + "Indices are ints; notifiers do not raise.", "DESIGN.md 3/C05")

reg("C06", "exploration",
    "Hypothesis op histories vs transactional builtin-dict model + event reconstruction law",
    "Generated histories over every TraitDict mutator with coercing/rejecting validators, on a bare TraitDict and on a "
    "Dict trait with an observer between two raw notifiers; after each op contents/result/exception class are compared "
    "with a dict model and the previous contents are reconstructed from every event. Sampling, not exhaustive.",
    BASE_NOTE + "Multi-fault calls are judged by the first fault in left-to-right order.", "DESIGN.md 3/C06")

reg("C07", "exploration",
    "Hypothesis op histories vs builtin-set model + delta law + copy/pickle round-trip laws",
    "Generated histories over every TraitSet mutator (0-3 iterables, overlapping/disjoint/invalid/unhashable items) with "
    "copies taken mid-history; contents and exception classes are compared with a builtin set and every event with the "
    "delta law. Sampling, not exhaustive.",
    BASE_NOTE + "CPython's hashing shortcuts in set.intersection_update are not demanded of TraitSet.", "DESIGN.md 3/C07")

reg("C04", "exploration",
    "Hypothesis op histories on container traits: independent element/length invariant after every step + builtin-container model deciding legal/illegal ops",
    "Generated histories over every list/dict/set mutator and whole-value assignment on 11 container traits (bounded, "
    "nested, Union items) with valid/convertible/invalid items; after every step an independent recursive predicate "
    "checks every element and length, and a model on documented conversions decides whether the op had to succeed "
    "(same contents) or be rejected with TraitError leaving everything unchanged and nobody notified. Items include values "
    "EQUAL to members but of another type; operands include frozensets, detached unvalidated copies and the container "
    "object of a dropped twin instance; a bounded list without a default must never read below its minimum. Sampling.",
    BASE_NOTE + "Inner-trait conversions modelled from the documentation (Int via __index__, Float via __float__/__index__).",
    "DESIGN.md 3/C04")

reg("C03", "exploration",
    "differential testing: compiled ctrait.validate vs the handler's Python validate over an exhaustive (configuration x value lattice) grid and Hypothesis-generated nested compounds; compound law against alternatives validated alone",
    "Every configuration carrying a fast-validation descriptor (and Either/Trait(...)/Tuple compounds of them) is run over the "
    "whole ~150-value lattice on one trait object in two orders (exhaustive inside that grid); generated nested compounds add "
    "spec-derived values. Acceptance, stored value and exact type are compared between the two paths, and each compound with "
    "its alternatives validated alone. Absence outside the grid/lattice is not shown.",
    BASE_NOTE + "The Python-level validate method is the reference, as the statement says.", "DESIGN.md 3/C03")

reg("C01", "exploration",
    "exhaustive (configuration x route x value lattice) grid + Hypothesis-generated nested specifications, judged by documentation-derived reference predicates, an independent domain predicate and snapshot equality on rejection",
    "Each of ~190 configurations (all fast scalar types and Base twins, casts, int/float Range with every bound/exclusivity "
    "combination, Enum, Map, PrefixList/Map, Tuple, Instance/Type/This/Callable with allow_none and adapt modes, String, "
    "List/Dict/Set, Either/Union/Trait compounds) is driven through the whole ~150-value lattice by setattr, trait_set, "
    "trait_setq, constructor keyword and through a PrototypedFrom attribute on one object (exhaustive inside grid x "
    "lattice), plus generated nestings. A second pair of stages (DESIGN.md 14) does the same for the types outside the "
    "lattice: Array/CArray/ArrayOrNone (9 dtypes x 9 shapes x 5 casting rules), Date/Time/Datetime, UUID, File/Directory, "
    "Expression, WeakRef, CList/CSet, ValidatedTuple, Constant, dynamic Range/Enum (incl. a shrinking collection), Properties "
    "with a validating trait, and 27 Base*/alias classes. Absence outside the grids/lattice is not shown.",
    BASE_NOTE + "References are my reading of the documentation; where it is silent only the domain predicate is applied.",
    "DESIGN.md 3/C01")

reg("C02", "exploration",
    "Hypothesis assignment histories vs a per-step model of expected handler calls (comparison mode x readable before/after), identity of reported old/new, agreement of the three mechanisms",
    "Generated histories of normal, quiet and rejected assignments and default reads over 19 attributes (6 trait kinds x 3 "
    "comparison modes + Event), each watched by a static handler, _anytrait_changed, on_trait_change and observe, any two "
    "of which raise; variants: object-level one-shot handlers, a class without any trait-level handler on six attributes, "
    "a subclass overriding only defaults, observe-decorated magic-named handlers inherited from a base class, a typed "
    "Event. Expected call counts are computed from the values readable before/after. Sampling, not exhaustive.",
    BASE_NOTE + "Handler exceptions are swallowed by recording exception handlers (the default configuration logs them).",
    "DESIGN.md 3/C02")

reg("C08", "exploration",
    "Hypothesis model-based histories: from-scratch reachability model over a pool of interlinked objects decides, after every mutation, the step's own event and a probe of every pool object",
    "Generated expressions (series/parallel/items/metadata links/anytrait, '.' and ':', DSL text or expression API) on pools "
    "with sharing, duplicates and cycles; after each of <=25 mutations every pool object (reachable or detached) is probed "
    "and must call the handler exactly once iff the model reaches it with notify. Mutations include multi-argument set "
    "operations, metadata-selected link traits (also with falsy metadata values) added to instances before or after "
    "registration, and deletion of a default-object link. Sampling; histories are cut at self-referential steps while "
    "known finding F16 is active and after the deletion step of F48.",
    BASE_NOTE + "The reachability model is my reading of the user manual's semantics of observe expressions.",
    "DESIGN.md 3/C08")

reg("C09", "fault_enumeration",
    "Hypothesis model-based registration histories (multiset model + reachability model) and enumeration of every walk position at which a registration can fail",
    "hist: generated interleavings of observe add/remove for three handlers (two functions, a bound method) and several "
    "expressions (text and API form) with graph mutations, owner collection and gc; every pool object is probed after every "
    "step, notifier populations are compared after balanced histories, the root is finally dropped while downstream objects "
    "live. fail: for each generated (graph, expression) a bad object is placed at EVERY position of the walk and the failing "
    "observe() must leave populations and probe results unchanged. failrem: the same for a REMOVAL that raises part-way "
    "(bad object inserted after registration). optional: histories concentrated on traits observed (optional or required) "
    "before/after add_trait, re-added, added twice, container traits added under anytrait observers. Expressions are "
    "handed over as DSL text, expression objects or lists. dispatch='same' only.",
    BASE_NOTE + "CPython reference counting is deterministic, so explicit del/gc.collect() steps own the collection schedule.",
    "DESIGN.md 3/C09")

reg("C10", "exploration",
    "Hypothesis class specifications x multi-instance histories vs a per-instance model with private deep copies of the declared defaults; isolation invariant over all other instances, the class and a new instance after every step",
    "Generated classes (18 default kinds incl. container copies, list/dict subclasses, factories, _name_default, a "
    "property-style dynamic Enum with a default method, Tuple/Union/Dict with container members, the Union's own list "
    "default, subclass overrides, a wildcard trait) and histories over 2-5 instances (read, mutate default containers, assign, handlers, "
    "add/remove_trait, trait queries); after every step every other instance, class-level definitions and a brand-new "
    "instance are compared with their model and no container may be shared; handlers are identified by the instance they "
    "were registered on; definitions are compared on the raw class and instance tables. Sampling.",
    BASE_NOTE, "DESIGN.md 3/C10")

reg("C11", "exploration",
    "Hypothesis histories vs an interpreter of the documented deferral semantics (chain resolution, write-through vs local override), read coherence after every step, exactly-one/none notification oracle",
    "Generated deferring classes (DelegatesTo / PrototypedFrom x same-name / explicit / 'pre_*' / '*' styles, optional second "
    "hop of the same kind, 3 candidate delegates per hop) and histories of valid/invalid assignments through the deferring "
    "attribute, assignments on any candidate delegate and on unrelated attributes, delegate swaps and deletion of the local "
    "value; variants: a second deferring attribute for the same target, a delegate that is the trait's constant default "
    "object, listenable=False. Sampling; mixed-kind chains and the modify option are not covered.",
    BASE_NOTE, "DESIGN.md 3/C11")

reg("C12", "exploration",
    "Hypothesis dependency-mutation histories (crossing pickle/clone/deepcopy) vs independent recomputation of every property, getter-call counting and notification oracle",
    "An object with 9 observed properties (cached/uncached; scalar, Instance, list/dict/set items with duplicates, nested and "
    "multi-dependency) is driven through generated mutations, reads and copy operations; after every step every property "
    "is compared with a recomputation, cached getters may run at most once between changes, and value-altering changes must "
    "be announced to observe, on_trait_change and static handlers - or to an object-level handler when nothing listens by "
    "name - with the right final value; variant: a subclass overriding only getters. Sampling.",
    BASE_NOTE, "DESIGN.md 3/C12")

reg("C13", "exploration",
    "Hypothesis class hierarchies x access histories vs an independent name resolver and per-kind policy automaton",
    "Generated hierarchies over HasTraits/HasStrictTraits/HasPrivateTraits (1-3 levels, optional mixin base) with explicit and "
    "wildcard traits of 9 kinds; histories of get/set/del on ~50 names (matching 0, 1 or several prefixes, incl. names with "
    "two leading underscores), add_trait / remove_trait (also of container traits with their items companion) and "
    "shadow/unshadow cycles; outcome class and value are compared with the model after every op. Sampling.",
    BASE_NOTE + "Policy automaton calibrated against the documentation (Event: write-only, Constant: immutable, ReadOnly: one defining assignment ...).",
    "DESIGN.md 3/C13")

reg("C14", "exploration",
    "Hypothesis (state history, copy mode) round-trip with liveness probes on the copy + exhaustive (definition kind x route) round-trip of trait definition objects in crash-isolated workers",
    "objects: states reached by generated histories (nested containers to depth 3, Instance graph, transient/ReadOnly/"
    "copy-metadata traits, observed Property, @observe method, prototyped local value) copied by pickle protocols 0-5, deepcopy, "
    "clone_traits(None/shallow/deep) and copy_traits; values, transients, non-sharing and liveness (validation at every depth, "
    "items handlers, observers, property dependencies, write-once) are probed on the copy. defs: all 46 definition kinds x "
    "pickle/copy/deepcopy, the round-tripped CTrait must validate/default/get/set like the original. defgrid: every "
    "configuration of the C01/C03 lattice as a definition x 3 routes, compared on every lattice value (exhaustive). objkinds: "
    "every definition kind as the attribute of an object x 3 states x 6 copy routes (exhaustive). Sampling for objects.",
    BASE_NOTE, "DESIGN.md 3/C14")

reg("C15", "exploration",
    "exhaustive enumeration of all short strings over the DSL alphabet + Hypothesis-generated grammar derivations in several spellings, against an independently written recogniser and path-set denotation",
    "Every string of <=5 (quick) / <=6 (thorough) symbols over a 14-symbol alphabet is classified (accept/reject, ValueError) "
    "and, if accepted, its compiled ObserverGraphs are flattened to the set of root-to-node paths with notify/optional flags "
    "and compared with the reference denotation (exhaustive inside the bound); generated derivations (depth<=4) are rendered "
    "with whitespace/bracket variants and checked for equal patterns, cache stability and add-by-one-spelling / "
    "remove-by-another. Thorough adds an atheris campaign on the parser.",
    BASE_NOTE + "The reference is derived from _dsl_grammar.lark and the user manual, not from parsing.py.", "DESIGN.md 3/C15")

reg("C16", "exploration",
    "differential testing of on_trait_change extended names against observe expressions on generated tree-shaped graphs, with a from-scratch reachability walk as third opinion",
    "Generated extended names (1-3 links through Instance/List/Dict/Set traits, '.'/':' mixes) with the corresponding observe "
    "expression on tree-shaped graphs; after each of <=15 mutations the final attribute of every object ever created is probed: "
    "legacy called iff observe called iff reachable; link assignments are reported by both for '.' and by neither for ':'; after "
    "remove=True nothing is called. Variants: deferred registration, 1- and 2-argument handler signatures, nodes with "
    "value-based equality. Sampling.",
    BASE_NOTE + "Unshared graphs and explicit values only, as the statement requires.", "DESIGN.md 3/C16")

reg("C17", "exploration",
    "Hypothesis-generated type hierarchies x offer multisets decided against an unpruned brute-force enumeration of all chains of distinct applicable offers",
    "Generated hierarchies (multiple inheritance, ABC registration), offers constructed along drawn paths plus distractors, "
    "duplicates, cycles, conditional factories (7 kinds, incl. factories that raise during a first attempt), specificity "
    "twins, a short chain entering through a far base class, late ABC registrations, re-assignment after a new offer; adapt() / adapt(default) / Supports / AdaptsTo / "
    "Instance(adapt='yes') results are compared with the brute force for existence, validity, minimal length and single-step "
    "specificity; every case runs under a watchdog. Sampling.",
    BASE_NOTE + "Brute force enumerates <= 7! sequences; factories are deterministic.", "DESIGN.md 3/C17")

reg("C20", "exploration",
    "Hypothesis link/assignment/mutation histories vs a directed-edge model that simulates the documented propagation (change detection, re-entrancy lock, rejecting partners)",
    "Generated histories over three objects with scalar, bounded and list traits: sync_trait mutual/one-way with aliases and "
    "several partners, remove=True, scalar and list assignments, 16 list mutators incl. extended slices, partner collection; "
    "after every step every attribute is compared with the model (convergence of linked attributes, no change of unlinked "
    "ones), no exception may be raised or reach the notification exception handler, handlers fire at most once per step; "
    "links are re-issued with other flags/directions, single directions removed, and a sync_trait call whose initial copy "
    "is rejected must raise and leave nothing behind. Sampling.",
    BASE_NOTE, "DESIGN.md 3/C20")

reg("C19", "fault_enumeration",
    "fault injection with exhaustive enumeration of (callback ordinal k x exception type) per generated operation, all-or-nothing state oracle, never-failed-twin follow-up comparison and exception-type metamorphic relation",
    "For each generated (prefix, operation, follow-up) the fault-free run counts the invocations of harness-owned user "
    "callbacks (custom validators inside List/Dict/Set/Union/Either, default methods and factories, property getter/setter, "
    "adapter factories, static/on_trait_change/observe/items handlers, validators of synchronised partners); every ordinal k "
    "x {TraitError, ValueError, AttributeError, RuntimeError, a RuntimeError with a non-string first argument} is then "
    "injected on a fresh twin and judged, under a quiet handler of the harness or the library's default handler. 34 operations; the "
    "enumeration over k and exception types is complete for each generated operation, the operations themselves are sampled.",
    BASE_NOTE + "User callbacks are harness-owned wrappers; Union alternatives that raise count as rejecting.", "DESIGN.md 3/C19")

reg("C18", "exploration",
    "generated API programs (re-used case streams of 17 other checks, re-entrant callback programs, hostile value/name protocol faults with every k-th call enumerated) executed against an ASan+UBSan build of ctraits.c, plus an exact reference-count neutrality oracle on the plain build",
    "Sanitised stages: the oracle is 'no sanitizer report, no crash, no SystemError, no stale error indicator' (checked with "
    "PyErr_Occurred after every operation); half of the shards run with gc.set_threshold(1,1,1). refcount stage: for 37 "
    "operations (succeeding and raising, through every validator family, compounds, delegation, properties, handlers, "
    "add/remove_trait, CTrait pickling) sys.getrefcount of fresh tracked objects must be unchanged after 10 and 30 repetitions. "
    "refgrid: every lattice configuration x (lattice values + 28 containers with mortal convertible items): reference counts of "
    "the value and everything nested in it after 1/11/41 assignments to fresh objects. ctrait-api (sanitised, exhaustive): every "
    "getset attribute of cTrait x {delete, assign 15 values} on 5 kinds of definitions, raw CTrait(kind), base_trait() along "
    "broken delegation chains. deffault(-asan): default callback kind x exception class (or a returned watched object) x "
    "warnings filter x access route. Thorough adds a native libFuzzer (atheris) campaign on the validators. Sanitizers see "
    "only the paths reached; MSan is not available.",
    BASE_NOTE + "gcc 12 ASan/UBSan runtime; PYTHONMALLOC=malloc so that CPython's allocator does not hide frees.", "DESIGN.md 3/C18")


# generator / oracle pieces added after the texts above were written (DESIGN.md 17)
EXTRA = {
    "C01": " Lattice additions: a prefix shared by three values, mapped alternatives next to unhashable-valued ones, a Map whose "
           "dictionary is changed after the definition.",
    "C02": " A write-once (ReadOnly) attribute: its one defining assignment is a change like any other.",
    "C03": " Also a Map whose dictionary is changed after the definition (both validators must keep consulting the same mapping) "
           "and adapting Instance alternatives whose default is an object.",
    "C04": " update() with several iterables is one operation.",
    "C08": " add_trait over a name that already exists on an observed path (equivalent redefinition) is one of the mutations.",
    "C09": " One handler may be a closure over the observed root: the whole graph is then dropped and must be collected.",
    "C10": " Default kinds include an explicit Tuple default that holds a list.",
    "C11": " The delegate may be None for a while (link broken, every candidate changes, a delegate is installed again).",
    "C12": " Items may have value-based equality (replacing an item by an equal but distinct object changes the property).",
    "C13": " A trait_added listener may declare an instance trait for the name being resolved for the first time; declarations may be "
           "made with add_class_trait after the family exists; a level may re-declare an inherited name by a plain value.",
    "C14": " Deferring attributes (DelegatesTo / PrototypedFrom) over mutable values of the child, and an explicitly non-transient trait.",
    "C15": " White space around the whole text (every character of the class, leading and trailing).",
    "C17": " Offers may name protocol and factory by dotted strings into a module that is not imported yet.",
    "C18": " The ctrait-api stage also defines Properties whose callbacks have every arity 0..6 and '*' delegates on classes with odd "
           "__prefix__ values.",
    "C19": " Operations include deletions of stored values; stage rehook makes a callback of a newly assigned intermediate object fail "
           "while an extended on_trait_change listener re-hooks itself (absolute expectations after that object is replaced).",
    "C20": " Every sync_trait call is made in one of four spellings; a one-shot handler may remove a live link in the middle of a "
           "propagation.",
}


EXTRA6 = {'C02': ' Traits whose class defines both magic handler names; a wildcard observer as a fifth mechanism.', 'C04': ' The owner object may be falsy; *= with an integer-like multiplier.', 'C05': ' A notifier that removes itself while being dispatched.', 'C06': " A notifier that removes itself while being dispatched; key and value validators that both coerce; the dict's contents at the moment every notifier is called.", 'C07': ' A notifier that removes itself while being dispatched; a validator that rejects its own results.', 'C08': ' A container trait assigned its own current value and then mutated.', 'C10': ' Also: Union whose first member has a copy default, a mapped trait with a default method and a shadow listener, a nested mutable inside a container default (known finding F67); half of the assignments are made before the first read.', 'C11': ' The local value may arrive with the constructor arguments.', 'C12': ' The object may be constructed with a keyword, so that dependency defaults materialise during initialisation.', 'C13': " Registering a handler on a name (the object gets its own copy of the governing trait) with a listener that declares all its names; the object's class may sit beside a diamond.", 'C14': ' A never-written write-once attribute on the image; round-tripped definitions are also deleted and assigned twice more.', 'C16': ' Bracket groups of Instance links and a node class with dynamic default initialisers.', 'C18': ' Deletion of stored values with a default that fails only for the deletion; set_default_value with every kind number; fields of one cTrait written again and again under a reference-count watch.', 'C19': ' A prototyped attribute with a ticking validator (set, bad set, delete, prototype changes).', 'C20': ' A one-shot handler may also drop another object in the middle of a propagation.'}


EXTRA7 = {'C01': ' Extras values include datetime / time subclasses.', 'C02': ' Handlers may be registered twice (alternating priority) and a handler plus an observer may come and go on every trait before the history.', 'C03': ' Stage lazy: string-named classes resolved through different copies of one trait (listener object, plain object, class trait).', 'C04': ' Containers declared with items=False and with maxlen=0.', 'C05': ' Members found only by identity (NaN, never-equal object) and iterables that fail part-way.', 'C10': ' comparison_mode=none defaults under observers; one CTrait object shared by two attributes.', 'C11': " Falsy delegate objects and targets compared by 'none'.", 'C12': ' pop with the stored object as default; a refused quiet assignment.', 'C15': ' Keyword-like names (in, is, not); the exhaustive alphabet has 15 symbols.', 'C16': ' Another extended name that comes and goes; links assigned already-populated objects.', 'C17': ' A lazily imported offer module may register offers while it is imported.', 'C18': ' ctrait-api also: a validated-Property base and a temporary middle delegate with a prefixed second hop.', 'C19': ' Containers with non-empty declared defaults and their deletion.'}
EXTRA8 = {'C02': ' Traits may be re-added on the instance before the history.',
          'C04': ' Index keys that are not ints and the keyword form of update.',
          'C10': ' Stage solo (metamorphic): what an instance of a class with dynamic Range / Enum / method defaults observes in a history interleaved with other instances equals what it observes alone; a default method runs only while nothing is stored, also after a first read that failed late.',
          'C11': " One-character 'p*' prefixes; the link attribute may itself be deferred to a holder object.",
          'C12': ' Batches whose later element is refused; a self-removing notifier ahead of the property observers.'}
EXTRA9 = {'C08': ' A refused quiet assignment must leave every hook alive.',
          'C13': ' Undeclared names with one trailing underscore.',
          'C14': ' Images report traits_inited() and keep a UUID(can_init=True) write-once; an object whose every trait is transient comes back with live observers and property caches.',
          'C16': ' Link values replaced by equal but distinct objects; a final segment selected by metadata (+lvl, falsy values).',
          'C19': ' Method forms of the set / list / dict updates; a new (also mutual) synchronisation whose initial copy fails; the sync records are part of the compared state.',
          'C20': ' Non-list one-way partners (taps) of the list traits, attached before or after the list partners.'}
EXTRA10 = {'C17': ' Adapting traits as alternatives of an Either.',
           'C18': ' refgrid assigns the library sentinels Undefined / Uninitialized; stage cycles: delegation cycles through 1-4 objects end in Python exceptions for every kind of access.'}


def main():
    for pid, extra in EXTRA10.items():
        EXTRA9[pid] = EXTRA9.get(pid, "") + extra
    for pid, extra in EXTRA9.items():
        EXTRA8[pid] = EXTRA8.get(pid, "") + extra
    for pid, extra in EXTRA8.items():
        EXTRA7[pid] = EXTRA7.get(pid, "") + extra
    for pid, extra in EXTRA7.items():
        EXTRA6[pid] = EXTRA6.get(pid, "") + extra
    for pid, extra in EXTRA6.items():
        EXTRA[pid] = EXTRA.get(pid, "") + extra
    for pid, extra in EXTRA.items():
        if pid in CHECKS and extra not in CHECKS[pid]["text"]:
            CHECKS[pid]["text"] += extra
    props = [json.loads(l) for l in open(os.path.join(ROOT, "properties.jsonl"))]
    checks, na = [], []
    for p in props:
        pid = p["id"]
        have = os.path.exists(os.path.join(ROOT, "vf", "props", pid.lower() + ".py"))
        if have and pid in CHECKS:
            c = CHECKS[pid]
            checks.append({
                "property_id": pid,
                "quick_cmd": "./check %s quick" % pid,
                "thorough_cmd": "./check %s thorough" % pid,
                "evidence_file": "evidence/%s.json" % pid,
                "replay_cmd_template": "./check %s --replay {path}" % pid,
                "engine": "vf",
                "level_claimed": {"category": c["category"], "text": c["text"], "design_ref": c["ref"]},
                "level_note": c["note"],
                "technique": c["technique"],
            })
        else:
            na.append({"property_id": pid, "reason": NOT_BUILT})
    m = {
        "version": 1,
        "setup_cmd": "/venv/bin/python -P vf/setup.py",
        "hooks": {
            "guard": "ENTHOUGHT_TRAITS_VERIF",
            "enable": "no hooks: every observation point is reachable through the public API; checks build an "
                      "overlay of /repo's working tree (symlinks + freshly compiled ctraits.c) and run with "
                      "PYTHONPATH=<overlay>",
            "baseline_off_cmd": "cd /repo && /venv/bin/python -m pytest -ra -q -p no:cacheprovider --timeout=900 "
                                "--continue-on-collection-errors",
            "source_commits": [],
            "add_only": True,
        },
        "engines": [{
            "name": "vf", "path": "vf/runner.py", "serves_properties": [c["property_id"] for c in checks],
            "kind_free_text": "property-based testing: Hypothesis-generated cases / exhaustive enumeration of finite "
                              "sub-spaces / fault enumeration, each against an explicit oracle, sharded over 16 worker "
                              "processes on an overlay built from /repo's working tree; atheris/libFuzzer stages in "
                              "thorough tiers",
        }],
        "checks": checks,
        "not_applicable": na,
        "notes": "VERIF_SEED seeds every Hypothesis shard (seed*1000+shard). Exit 0 held / 1 VIOLATION / 2 harness "
                 "error. known_findings.json lists genuine defects (status known) and repaired ones (status fixed).",
    }
    with open(os.path.join(ROOT, "MANIFEST.json"), "w") as f:
        json.dump(m, f, indent=1)
    print("checks:", [c["property_id"] for c in checks], "not_applicable:", len(na))


if __name__ == "__main__":
    main()
