"""./check <ID> quick|thorough     ./check <ID> --replay <file>

Builds the overlay from the repository's working tree, replays the committed
regression cases and the witnesses of known_findings.json, runs every stage of
the property sharded over worker processes, merges the counters into
evidence/<ID>.json and prints the verdict lines.

exit 0  property held on everything explored (KNOWN-FINDING lines possible)
exit 1  VIOLATION property=<id> replay=<path>
exit 2  harness error (never a VIOLATION line)
"""
import glob
import json
import os
import re
import shutil
import subprocess
import sys
import time

ROOT = os.path.dirname(os.path.dirname(os.path.abspath(__file__)))
sys.path.insert(0, ROOT)
from vf import overlay  # noqa: E402

PY = sys.executable
NPROC = int(os.environ.get("VERIF_JOBS", "16"))


def log(*a):
    print(*a, file=sys.stderr, flush=True)


def rel(p):
    return os.path.relpath(p, ROOT)


class Task:
    def __init__(self, kind, args, flavour, tag):
        self.kind, self.args, self.flavour, self.tag = kind, args, flavour, tag
        self.proc = None
        self.out = self.journal = self.err = None
        self.rc = None
        self.result = None


def run_tasks(tasks, prop, tier, overlays, scratch, timeout):
    """Run tasks with at most NPROC concurrent worker processes."""
    pending = list(tasks)
    running = []
    t_end = time.time() + timeout
    i = 0
    while pending or running:
        while pending and len(running) < NPROC:
            t = pending.pop(0)
            i += 1
            base = os.path.join(scratch, "t%04d" % i)
            t.out, t.journal, t.err = base + ".out.json", base + ".journal.json", base + ".stderr"
            cmd = [PY, "-P", "-m", "vf.worker", "--prop", prop, "--tier", tier,
                   "--out", t.out, "--journal", t.journal] + t.args
            env = overlay.env_for(t.flavour, overlays[t.flavour])
            env.update(getattr(t, "extra_env", {}))
            t.errf = open(t.err, "wb")
            t.proc = subprocess.Popen(cmd, cwd=ROOT, env=env, stdout=t.errf, stderr=t.errf)
            running.append(t)
        time.sleep(0.02)
        for t in list(running):
            rc = t.proc.poll()
            if rc is None:
                if time.time() > t_end:
                    t.proc.kill()
                    t.proc.wait()
                    rc = "budget"
                else:
                    continue
            t.rc = rc
            t.errf.close()
            running.remove(t)
            if os.path.exists(t.out):
                try:
                    with open(t.out) as f:
                        t.result = json.load(f)
                except Exception:
                    t.result = None
    return tasks


SAN_RE = re.compile(r"SUMMARY: (\w+Sanitizer): (\S+) (?:\S*?([\w.]+\.c):\d+(?::\d+)? in (\w+)|.*)")
UB_RE = re.compile(r"([\w.]+\.c):(\d+):\d+: runtime error: (.*)")


def crash_bucket(t):
    try:
        with open(t.err, "rb") as f:
            err = f.read().decode("utf-8", "replace")
    except OSError:
        err = ""
    m = SAN_RE.search(err)
    if m:
        return "sanitizer/%s@%s" % (m.group(2), m.group(4) or "?"), err[-6000:]
    m = UB_RE.search(err)
    if m:
        return "sanitizer/ub@%s:%s" % (m.group(1), m.group(2)), err[-6000:]
    rc = t.rc
    if isinstance(rc, int) and rc < 0:
        return "crash/signal%d" % (-rc), err[-3000:]
    return "crash/exit%s" % rc, err[-3000:]


def _candidates(case):
    """Smaller variants of a JSON case: drop one element of some list / one key of the 'script'-like dicts."""
    out = []

    def walk(node, path):
        if isinstance(node, list):
            if len(node) > 1 and all(isinstance(x, list) for x in node) or (path and len(node) > 0 and any(isinstance(x, (list, dict)) for x in node)):
                for i in range(len(node)):
                    out.append((path, "del", i))
            for i, x in enumerate(node):
                walk(x, path + [i])
        elif isinstance(node, dict):
            for k, v in node.items():
                if isinstance(v, dict) and v:
                    for kk in v:
                        out.append((path + [k], "delkey", kk))
                walk(v, path + [k])
    walk(case, [])
    return out


def _apply(case, cand):
    import copy
    c = copy.deepcopy(case)
    path, what, i = cand
    node = c
    for p_ in path:
        node = node[p_]
    if what == "del":
        del node[i]
    else:
        del node[i]
    return c


def shrink_crash(prop, tier, stage, flavour, case, bucket, overlays, scratch, budget_s):
    """Greedy one-at-a-time reduction of a crashing case; every candidate is replayed in its own process."""
    t_end = time.time() + budget_s
    n_try = 0
    improved = True
    while improved and time.time() < t_end:
        improved = False
        cands = _candidates(case)
        # try batches of NPROC candidates in parallel, keep the first that still crashes the same way
        for i in range(0, len(cands), NPROC):
            if time.time() > t_end:
                break
            batch = cands[i:i + NPROC]
            tasks = []
            for j, cand in enumerate(batch):
                try:
                    c2 = _apply(case, cand)
                except Exception:
                    continue
                f = os.path.join(scratch, "shrink-%d-%d.json" % (n_try, j))
                with open(f, "w") as fh:
                    json.dump({"property": prop, "stage": stage, "case": c2}, fh)
                t = Task("replay", ["--replay", f], flavour, c2)
                tasks.append(t)
            n_try += 1
            run_tasks(tasks, prop, tier, overlays, scratch, 120)
            hit = None
            for t in tasks:
                if t.result is None or t.rc not in (0, 2):
                    b, _ = crash_bucket(t)
                    if b == bucket:
                        hit = t.tag
                        break
            if hit is not None:
                case = hit
                improved = True
                break
    return case


def load_known(prop):
    path = os.path.join(ROOT, "known_findings.json")
    if not os.path.exists(path):
        return []
    with open(path) as f:
        data = json.load(f)
    return [e for e in data.get("findings", []) if prop in e.get("properties", [e.get("property")])]


def slug(s):
    return re.sub(r"[^A-Za-z0-9_.-]+", "_", s)[:80]


def out_root():
    """Evidence and replays of a trial against another tree (sensitivity mutants) never touch the real ones."""
    if os.path.realpath(overlay.repo_root()) == "/repo" and not os.environ.get("VERIF_STAGES"):
        return ROOT
    d = os.path.join(ROOT, ".run", "trial")
    os.makedirs(d, exist_ok=True)
    return d


def write_replay(prop, stage, v, extra=None):
    import hashlib
    d = os.path.join(out_root(), "replays", prop)
    os.makedirs(d, exist_ok=True)
    body = {"property": prop, "stage": stage, "bucket": v["bucket"], "message": v.get("message", ""),
            "case": v["case"]}
    if extra:
        body.update(extra)
    h = hashlib.blake2b(json.dumps(body["case"], sort_keys=True, default=repr).encode(), digest_size=4).hexdigest()
    path = os.path.join(d, "violation-%s-%s.json" % (slug(v["bucket"]), h))
    with open(path, "w") as f:
        json.dump(body, f, indent=1, default=repr)
    return path


def describe(prop, tier, ov_plain, scratch):
    out = os.path.join(scratch, "describe.json")
    env = overlay.env_for("plain", ov_plain)
    r = subprocess.run([PY, "-P", "-m", "vf.worker", "--prop", prop, "--tier", tier, "--describe", "--out", out],
                       cwd=ROOT, env=env, capture_output=True, text=True)
    if not os.path.exists(out):
        log(r.stdout, r.stderr)
        raise SystemExit(2)
    with open(out) as f:
        d = json.load(f)
    if d.get("harness_error"):
        log("harness error:", d["harness_error"])
        raise SystemExit(2)
    return d


def main(argv):
    if len(argv) < 2:
        log(__doc__)
        return 2
    prop = argv[0].upper()
    replay_file = None
    if argv[1] == "--replay":
        replay_file = os.path.abspath(argv[2])
        tier = "quick"
    else:
        tier = argv[1] if len(argv) > 1 else os.environ.get("VERIF_TIER", "quick")
    if tier not in ("quick", "thorough"):
        log("tier must be quick or thorough")
        return 2
    seed = int(os.environ.get("VERIF_SEED", "1") or 1)
    t0 = time.time()
    scratch = os.path.join(ROOT, ".run", "%s-%d" % (prop, os.getpid()))
    os.makedirs(scratch, exist_ok=True)
    try:
        return _main(prop, tier, seed, replay_file, scratch, t0)
    finally:
        if not os.environ.get("VERIF_KEEP_SCRATCH"):
            shutil.rmtree(scratch, ignore_errors=True)


def _main(prop, tier, seed, replay_file, scratch, t0):
    overlays = {"plain": overlay.build("plain")}
    desc = describe(prop, tier, overlays["plain"], scratch)
    stages = desc["stages"]
    if os.environ.get("VERIF_STAGES"):          # development aid: run only the named stages (evidence and replays go to .run/trial)
        stages = [x for x in stages if x["name"] in os.environ["VERIF_STAGES"].split(",")]
    if any(s["kind"] == "fuzz" for s in stages):
        overlay.ensure_atheris()
    for s in stages:
        if s["flavour"] not in overlays:
            overlays[s["flavour"]] = overlay.build(s["flavour"])
    flav = {s["name"]: s["flavour"] for s in stages}

    # ---------------------------------------------------------------- replay mode
    if replay_file:
        with open(replay_file) as f:
            rep = json.load(f)
        t = Task("replay", ["--replay", replay_file], flav.get(rep["stage"], "plain"), "replay")
        run_tasks([t], prop, tier, overlays, scratch, 600)
        if t.result is None or t.rc not in (0, 2):
            b, err = crash_bucket(t)
            print(err)
            print("VIOLATION property=%s replay=%s" % (prop, rel(replay_file)))
            return 1
        if t.result.get("harness_error"):
            log("harness error:", t.result["harness_error"])
            return 2
        v = t.result.get("violation")
        if v:
            print("bucket:", v["bucket"])
            print(v["message"])
            print("VIOLATION property=%s replay=%s" % (prop, rel(replay_file)))
            return 1
        print("replay passes: no violation")
        return 0

    # ---------------------------------------------------------------- prelude: witnesses + regression cases
    known = load_known(prop)
    pre = []
    for e in known:
        w = e.get("witness")
        if not w or w.get("property", prop) != prop:
            continue
        p = os.path.join(scratch, "wit-%s.json" % slug(e["id"]))
        with open(p, "w") as f:
            json.dump({"property": prop, "stage": w["stage"], "case": w["case"]}, f)
        t = Task("witness", ["--replay", p], flav.get(w["stage"], "plain"), e)
        pre.append(t)
    for p in sorted(glob.glob(os.path.join(ROOT, "replays", prop, "regress-*.json"))):
        with open(p) as f:
            rep = json.load(f)
        pre.append(Task("regress", ["--replay", p], flav.get(rep["stage"], "plain"), p))
    run_tasks(pre, prop, tier, overlays, scratch, 900)

    violations = []        # (stage, violation dict, extra)
    harness_errors = []
    active = {}            # bucket -> finding
    known_lines = []
    n_regress = 0
    for t in pre:
        crashed = t.result is None or t.rc not in (0, 2)
        if not crashed and t.result.get("harness_error"):
            harness_errors.append(t.result["harness_error"])
            continue
        if crashed:
            b, err = crash_bucket(t)
            v = {"bucket": b, "message": err}
        else:
            v = t.result.get("violation")
        if t.kind == "witness":
            e = t.tag
            if e["status"] == "known":
                if v is not None and (v["bucket"] in e.get("buckets", [e.get("bucket")])):
                    known_lines.append("KNOWN-FINDING: property=%s %s: %s" % (prop, e["id"], e["text"]))
                    for b in e.get("buckets", [e.get("bucket")]):
                        active[b] = e
                elif v is not None:
                    # the witness fails in a different way than recorded: that is news
                    v = dict(v, case=e["witness"]["case"])
                    violations.append((e["witness"]["stage"], v, {"note": "witness of %s fails differently" % e["id"]}))
            else:  # fixed: plain regression case
                n_regress += 1
                if v is not None:
                    v = dict(v, case=e["witness"]["case"])
                    violations.append((e["witness"]["stage"], v, {"note": "regression of fixed finding %s" % e["id"]}))
        else:
            n_regress += 1
            if v is not None:
                with open(t.tag) as f:
                    rep = json.load(f)
                v = dict(v, case=rep["case"])
                violations.append((rep["stage"], v, {"note": "committed regression case %s" % rel(t.tag)}))

    # ---------------------------------------------------------------- main search
    budget = float(os.environ.get("VERIF_BUDGET_S", "900" if tier == "quick" else "7200"))
    tasks = []
    for s in stages:
        n = max(1, min(s["shards"], 64))
        for i in range(n):
            t = Task("stage", ["--stage", s["name"], "--shard", str(i), "--nshards", str(n),
                               "--seed", str(seed), "--known", "|".join(active),
                               "--shrink-limit", "45" if tier == "quick" else "240"],
                     s["flavour"], (s["name"], i))
            if s.get("instrument"):
                t.extra_env = {"VERIF_FUZZ_INSTRUMENT": ",".join(s["instrument"])}
            tasks.append(t)
    run_tasks(tasks, prop, tier, overlays, scratch, budget)

    per_stage = {}
    inconclusive = []
    for t in tasks:
        sname, shard = t.tag
        agg = per_stage.setdefault(sname, {"evaluations": 0, "digests": set(), "count": 0, "classes": {},
                                           "samples": [], "known_hits": {}, "excluded": {}, "shards": 0})
        if t.rc == "budget":
            inconclusive.append("%s[%d]: search budget exhausted" % (sname, shard))
        crashed = (t.result is None or t.rc not in (0, 2)) and t.rc != "budget"
        if crashed:
            b, err = crash_bucket(t)
            case = None
            try:
                with open(t.journal) as f:
                    case = json.load(f)["case"]
            except Exception:
                pass
            if b in active:
                agg["known_hits"][b] = agg["known_hits"].get(b, 0) + 1
            else:
                if case is not None and isinstance(case, dict) and not any(v[1]["bucket"] == b for v in violations):
                    try:
                        case = shrink_crash(prop, tier, sname, flav.get(sname, "plain"), case, b, overlays, scratch,
                                            60 if tier == "quick" else 300)
                    except Exception as e:       # shrinking is best effort
                        log("shrinking failed:", e)
                violations.append((sname, {"bucket": b, "message": err, "case": case}, {"shard": shard}))
        r = t.result
        if not r:
            continue
        if r.get("harness_error"):
            harness_errors.append("%s[%d]: %s" % (sname, shard, r["harness_error"]))
            continue
        agg["shards"] += 1
        agg["evaluations"] += r.get("evaluations", 0)
        agg["digests"].update(r.get("nontrivial_digests", []))
        agg["count"] += r.get("nontrivial_count", 0)
        for k, n in r.get("classes", {}).items():
            agg["classes"][k] = agg["classes"].get(k, 0) + n
        for k, n in r.get("known_hits", {}).items():
            agg["known_hits"][k] = agg["known_hits"].get(k, 0) + n
        for k, n in r.get("excluded", {}).items():
            agg["excluded"][k] = agg["excluded"].get(k, 0) + n
        if len(agg["samples"]) < 3:
            agg["samples"].extend(r.get("samples", [])[:3 - len(agg["samples"])])
        for v in r.get("violations", []):
            violations.append((sname, v, {"shard": shard}))

    # one replay per (stage, bucket): keep the smallest case
    best = {}
    for sname, v, extra in violations:
        key = (sname, v["bucket"])
        size = len(json.dumps(v.get("case"), default=repr))
        if key not in best or size < best[key][0]:
            best[key] = (size, sname, v, extra)

    # ---------------------------------------------------------------- evidence
    stages_cov = {}
    tot_eval = tot_nt = 0
    samples = []
    for s in stages:
        a = per_stage.get(s["name"])
        if not a:
            continue
        nt = len(a["digests"]) + a["count"]
        tot_eval += a["evaluations"]
        tot_nt += nt
        stages_cov[s["name"]] = {
            "kind": s["kind"], "flavour": s["flavour"], "evaluations": a["evaluations"],
            "distinct_nontrivial": nt, "exhaustive": s["exhaustive"], "shards": a["shards"],
            "classes": dict(sorted(a["classes"].items())),
            "known_finding_hits": a["known_hits"], "excluded_by_construction": a["excluded"],
        }
        for smp in a["samples"][:2]:
            samples.append({"stage": s["name"], "case": smp})
    ev = {
        "property_id": prop, "tier": tier, "seed": seed, "level": desc["level"],
        "coverage": {
            "evaluations": tot_eval, "distinct_nontrivial": tot_nt, "rule": desc["rule"],
            "samples": samples,
            "exhaustive": bool(stages) and all(s["exhaustive"] for s in stages),
            "stages": stages_cov,
            "regression_cases_replayed": n_regress,
            "known_findings_active": sorted(e["id"] for e in {id(x): x for x in active.values()}.values()),
            "inconclusive": inconclusive,
            "repo_root": overlay.repo_root(),
        },
        "assumptions": desc.get("assumptions", []),
        "wall_s": round(time.time() - t0, 2),
        "violations": len(best),
    }
    os.makedirs(os.path.join(out_root(), "evidence"), exist_ok=True)
    evp = os.path.join(out_root(), "evidence", prop + ".json")
    with open(evp + ".tmp", "w") as f:
        json.dump(ev, f, indent=1, default=repr)
    os.replace(evp + ".tmp", evp)

    # ---------------------------------------------------------------- verdict
    for line in known_lines:
        print(line)
    print("%s %s seed=%d: %d evaluations, %d distinct non-trivial, %d stage(s), %.1fs"
          % (prop, tier, seed, tot_eval, tot_nt, len(stages_cov), time.time() - t0))
    for name, c in stages_cov.items():
        print("  stage %-12s evals=%-9d nontrivial=%-8d classes=%s" % (
            name, c["evaluations"], c["distinct_nontrivial"],
            json.dumps(c["classes"], sort_keys=True)[:600]))
        if c["known_finding_hits"]:
            print("    known-finding hits (excluded from the search):", c["known_finding_hits"])
    for msg in inconclusive:
        print("  INCONCLUSIVE:", msg)
    rc = 0
    for (sname, bucket), (_, _, v, extra) in sorted(best.items()):
        path = write_replay(prop, sname, v, extra)
        print("  bucket=%s stage=%s" % (bucket, sname))
        print("  " + (v.get("message") or "")[:1500].replace("\n", "\n  "))
        print("VIOLATION property=%s replay=%s" % (prop, rel(path)))
        rc = 1
    if harness_errors:
        for h in harness_errors[:5]:
            log("HARNESS ERROR:", h)
        if rc == 0:
            rc = 2
    if rc == 0 and (tot_eval < 1 or tot_nt < 2):
        log("HARNESS ERROR: nothing non-trivial was explored")
        rc = 2
    sys.stdout.flush()
    return rc


if __name__ == "__main__":
    sys.exit(main(sys.argv[1:]))
