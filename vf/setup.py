"""Offline, idempotent set-up: make sure hypothesis/numpy import, fetch atheris from the local
wheelhouse into .deps (thorough tiers), pre-build the plain overlay."""
import os
import subprocess
import sys

ROOT = os.path.dirname(os.path.dirname(os.path.abspath(__file__)))
sys.path.insert(0, ROOT)
WHEELS = "/opt/veriftools/wheels"
DEPS = os.path.join(ROOT, ".deps")


def pip(args):
    return subprocess.run([sys.executable, "-m", "pip", "install", "--no-index", "--find-links", WHEELS,
                           "--disable-pip-version-check", "-q"] + args).returncode


def have(mod):
    return subprocess.run([sys.executable, "-c", "import " + mod], env=dict(os.environ, PYTHONPATH=DEPS),
                          capture_output=True).returncode == 0


def main():
    os.makedirs(DEPS, exist_ok=True)
    for mod, pkg in (("hypothesis", "hypothesis"), ("numpy", "numpy"), ("atheris", "atheris")):
        if not have(mod):
            rc = pip(["--target", DEPS, pkg])
            print("installed %s into .deps (rc=%d)" % (pkg, rc))
    from vf import overlay
    print("overlay:", overlay.build("plain"))
    return 0


if __name__ == "__main__":
    sys.exit(main())
