"""C06 — TraitDict refines dict and its change events are faithful deltas.

Hypothesis histories over every mutator on (a) a bare TraitDict with identity /
coercing key validators and a rejecting value validator, (b) a Dict(CInt, Int)
trait of a HasTraits object with an observe("d.items") hook sitting between two
raw recording notifiers.
Oracle: transactional builtin-dict model + reconstruction law for every event.
"""
from hypothesis import strategies as st

from traits.api import HasTraits, Dict, CInt, Int
from traits.trait_dict_object import TraitDict
from traits.trait_errors import TraitError
from vf.values import dec

ID = "C06"
LEVEL = "exploration"
RULE = ("Hypothesis op histories (<=14 ops) over __setitem__/__delitem__/update(mapping|pairs)/|=/setdefault/pop/"
        "popitem/clear on a small key universe with coercing and rejecting validators; non-trivial = history in which "
        "an op hits an existing key, a duplicate or coerced key, a missing key or an invalid item; distinct by digest")
ASSUMPTIONS = ["update() is called with one positional mapping or pair-iterable (keyword form is outside the stated domain)",
               "validation and hashing are judged pair by pair, left to right; an unhashable key is TypeError for every op"]


def kv_ident(k):
    return k


def kv_coerce(k):
    if isinstance(k, str) and k.isdigit():
        return int(k)
    if isinstance(k, (int, str)):
        return k
    raise TraitError("bad key")


def vv_reject(v):
    if isinstance(v, int) and v < 0:
        raise TraitError("negative value")
    return v


def kv_str(k):
    # every int / str key is stored as its str() - the validated key is NOT equal to an int raw key
    if isinstance(k, (int, str)) and not isinstance(k, bool):
        return str(k)
    raise TraitError("bad key")


def vv_cint(v):
    # digit strings become ints: the validated value differs from the raw one
    if type(v) is int:
        return v
    if isinstance(v, str) and v.isdigit():
        return int(v)
    raise TraitError("bad value")


def kv_cint(k):
    try:
        return int(k)
    except (ValueError, TypeError):
        raise TraitError("bad key")


def vv_int(v):
    if type(v) is int:
        return v
    raise TraitError("bad value")


class Holder(HasTraits):
    d = Dict(CInt, Int)


KEY = st.sampled_from([0, 1, 2, "0", "1", "a", "b", {"t": [1]}, None, 1.0, True, {"l": [1]}])
VAL = st.one_of(st.integers(-2, 5), st.sampled_from(["x", None, "3", "4"]))
PAIRS = st.lists(st.tuples(KEY, VAL).map(list), max_size=4)
OP = st.one_of(
    st.tuples(st.just("set"), KEY, VAL),
    st.tuples(st.just("del"), KEY),
    st.tuples(st.just("update_map"), PAIRS),
    st.tuples(st.just("update_pairs"), PAIRS),
    st.tuples(st.just("ior_map"), PAIRS),
    # mappings that are NOT dict instances (real collections.abc.Mapping implementations; a bare keys()/__getitem__ object
    # is outside what TraitDict.update documents - "the new dict or an iterable of key-value pairs")
    st.tuples(st.just("update_mapform"), PAIRS, st.sampled_from(["proxy", "userdict", "chain"])),
    st.tuples(st.just("ior_mapform"), PAIRS, st.sampled_from(["proxy", "userdict", "chain"])),
    st.tuples(st.just("ior_pairs"), PAIRS),
    st.tuples(st.just("setdefault"), KEY, VAL),
    st.tuples(st.just("setdefault1"), KEY),
    st.tuples(st.just("pop"), KEY),
    st.tuples(st.just("popd"), KEY, VAL),
    st.tuples(st.just("popitem")),
    st.tuples(st.just("clear")),
    st.tuples(st.just("update_bad"), st.sampled_from([5, {"l": [1]}, {"l": [{"t": [1, 2, 3]}]}, None])),
    st.tuples(st.just("ior_bad"), st.sampled_from([5, 0, None, False, {"l": [1]}, "", "ab"])),
    # one-shot iterators / generators (possibly empty: an iterator is truthy whatever it will yield) and the dict itself
    st.tuples(st.just("update_iter"), PAIRS), st.tuples(st.just("ior_iter"), PAIRS), st.tuples(st.just("ior_gen"), PAIRS),
    st.tuples(st.just("update_self")), st.tuples(st.just("ior_self")),
).map(list)


def strategy(tier):
    return st.fixed_dictionaries({
        "mode": st.sampled_from(["ident", "coerce", "coerce", "coerce2", "coerce2", "trait", "trait"]),
        "oneshot": st.booleans(),
        "init": PAIRS,
        "ops": st.lists(OP, min_size=1, max_size=14),
    })


class Skip(Exception):
    pass


def as_map(pairs):
    try:
        return dict(pairs)
    except TypeError:
        raise Skip()


class KeysObj:
    """The minimal mapping protocol dict.update() accepts: keys() and __getitem__."""

    def __init__(self, d):
        self._d = d

    def keys(self):
        return self._d.keys()

    def __getitem__(self, k):
        return self._d[k]


def map_form(d, form):
    import collections
    import types
    return {"proxy": types.MappingProxyType, "userdict": collections.UserDict, "chain": collections.ChainMap,
            "keysobj": KeysObj}[form](d)


def run(case, ctx):
    mode = case["mode"]
    if mode == "trait":
        kval, vval = kv_cint, vv_int
    else:
        kval, vval = {"ident": (kv_ident, vv_reject), "coerce": (kv_coerce, vv_reject), "coerce2": (kv_str, vv_cint)}[mode]

    def vpairs(ps):
        out = []
        for a, b in ps:
            ka, vb = kval(a), vval(b)
            hash(ka)
            out.append((ka, vb))
        return out

    # initial contents (invalid init data is not the subject)
    try:
        init = dict(vpairs(dec(case["init"])))
    except (TraitError, TypeError):
        init = {}
    at_delivery = []      # contents of the dict as every notifier saw them when it was called
    raw = []      # events seen by raw notifiers: (tag, removed, added, changed)
    obs = []      # DictChangeEvents seen by the observe handler
    if mode == "trait":
        holder = Holder(d=init)
        td = holder.d

        def rec1(d, removed, added, changed):
            raw.append(("first", dict(removed), dict(added), dict(changed)))
            at_delivery.append(dict(d))

        def rec2(d, removed, added, changed):
            raw.append(("last", dict(removed), dict(added), dict(changed)))
            at_delivery.append(dict(d))
        td.notifiers.insert(0, rec1)
        holder.observe(lambda e: obs.append((dict(e.removed), dict(e.added))), "d.items")
        td.notifiers.append(rec2)
        n_rec = 2
    else:
        td = TraitDict(init, key_validator=kval, value_validator=vval)

        def one_shot(d, removed, added, changed):
            # a notifier that takes itself off the list the first time it is called: the one after it must still be told
            d.notifiers.remove(one_shot)
        if case.get("oneshot"):
            td.notifiers.append(one_shot)
            ctx.label("one-shot-notifier-ahead")
        td.notifiers.append(lambda d, removed, added, changed:
                            (raw.append(("only", dict(removed), dict(added), dict(changed))), at_delivery.append(dict(d))))
        n_rec = 1
    model = dict(init)
    interesting = False

    for op in case["ops"]:
        k = op[0]
        args = [dec(a) for a in op[1:]]
        before = dict(td)
        del raw[:], obs[:], at_delivery[:]
        what = lambda: "mode=%s op=%r before=%r" % (mode, op, before)

        def do_real():
            if k == "set":
                td[args[0]] = args[1]
            elif k == "del":
                del td[args[0]]
            elif k == "update_map":
                td.update(as_map(args[0]))
            elif k == "update_pairs":
                td.update(list(args[0]))
            elif k == "ior_map":
                td.__ior__(as_map(args[0]))
            elif k == "update_mapform":
                td.update(map_form(as_map(args[0]), args[1]))
            elif k == "ior_mapform":
                r = td.__ior__(map_form(as_map(args[0]), args[1]))
                if r is NotImplemented:
                    raise TypeError("unsupported operand")
            elif k == "ior_pairs":
                td.__ior__(list(args[0]))
            elif k == "setdefault":
                return td.setdefault(args[0], args[1])
            elif k == "setdefault1":
                return td.setdefault(args[0])
            elif k == "pop":
                return td.pop(args[0])
            elif k == "popd":
                return td.pop(args[0], args[1])
            elif k == "popitem":
                return td.popitem()
            elif k == "clear":
                td.clear()
            elif k == "update_bad":
                td.update(args[0])
            elif k == "ior_bad":
                r = td.__ior__(args[0])
                if r is NotImplemented:
                    raise TypeError("unsupported operand")
            elif k == "update_iter":
                td.update(iter([tuple(p) for p in args[0]]))
            elif k == "ior_iter":
                td.__ior__(iter([tuple(p) for p in args[0]]))
            elif k == "ior_gen":
                td.__ior__((tuple(p) for p in args[0]))
            elif k == "update_self":
                td.update(td)
            elif k == "ior_self":
                td.__ior__(td)

        def do_model(m):
            if k == "set":
                kk, vv = kval(args[0]), vval(args[1])
                m[kk] = vv
            elif k == "del":
                del m[args[0]]
            elif k in ("update_map", "ior_map", "update_mapform", "ior_mapform"):
                if k == "ior_mapform":
                    probe = {}
                    probe |= map_form(as_map(args[0]), args[1])          # (the builtin decides whether |= takes this operand)
                m.update(vpairs(as_map(args[0]).items()))
            elif k in ("update_pairs", "ior_pairs"):
                m.update(vpairs(args[0]))
            elif k in ("setdefault", "setdefault1"):
                if args[0] in m:
                    return m[args[0]]
                kk, vv = kval(args[0]), vval(args[1] if k == "setdefault" else None)
                return m.setdefault(kk, vv)
            elif k == "pop":
                return m.pop(args[0])
            elif k == "popd":
                hash(args[0])
                return m.pop(args[0], args[1])
            elif k == "popitem":
                return m.popitem()
            elif k == "clear":
                m.clear()
            elif k == "update_bad":
                m.update(vpairs(args[0]))
            elif k == "ior_bad":
                probe = {}
                probe |= args[0]                       # (the builtin decides: TypeError / ValueError / fine)
                m.update(vpairs(list(dict(args[0]).items()) if not isinstance(args[0], str) else args[0]))
            elif k in ("update_iter", "ior_iter", "ior_gen"):
                m.update(vpairs(args[0]))
            elif k in ("update_self", "ior_self"):
                m.update(vpairs(list(m.items())))

        try:
            m2 = dict(model)
            try:
                r2, e2 = do_model(m2), None
            except Skip:
                raise
            except Exception as e:
                r2, e2, m2 = None, e, dict(model)
        except Skip:
            continue
        ctx.label("op:" + k)
        try:
            r1, e1 = do_real(), None
        except Exception as e:
            r1, e1 = None, e

        # classification
        if k in ("set", "setdefault", "setdefault1", "pop", "popd", "del"):
            try:
                if args[0] in before:
                    interesting = True
                    ctx.label("existing-key")
                elif kval(args[0]) in before:
                    interesting = True
                    ctx.label("coerced-existing-key")
            except Exception:
                pass
        if e2 is not None:
            interesting = True
            ctx.label("failing-op")
        if k.endswith("mapform"):
            interesting = True
            ctx.label("non-dict-mapping:" + args[1])
        if k.endswith("_self"):
            interesting = True
            ctx.label("self-as-argument")
        if k.startswith(("update", "ior")) and e2 is None and args and isinstance(args[0], list):
            try:
                ks = [kval(a) for a, _ in args[0]]
                if len(set(ks)) < len(ks):
                    interesting = True
                    ctx.label("duplicate-keys")
            except Exception:
                pass

        # F6 signature: setdefault with a raw key that is absent but whose validated key is present
        sig = ""
        if k in ("setdefault", "setdefault1") and e2 is None:
            try:
                if args[0] not in before and kval(args[0]) in before:
                    sig = "/setdefault-coerced-existing-key"
            except Exception:
                pass

        if (e1 is None) != (e2 is None) or (e1 is not None and type(e1) is not type(e2)):
            ctx.fail("refine/exception" + sig, "TraitDict: %r, dict: %r; %s" % (e1, e2, what()))
        if dict(td) != m2 or any(type(td[x]) is not type(m2[x]) for x in m2):
            ctx.fail("refine/contents" + sig, "TraitDict %r, dict %r; %s" % (dict(td), m2, what()))
        if e1 is None and not (r1 == r2 and type(r1) is type(r2)):
            ctx.fail("refine/result" + sig, "returned %r, dict returns %r; %s" % (r1, r2, what()))
        model = m2
        if e1 is not None:
            if dict(td) != before:
                ctx.fail("refine/untouched", "failing op changed contents to %r; %s" % (dict(td), what()))
            if raw or obs:
                ctx.fail("events/on-failure", "failing op notified %r %r; %s" % (raw, obs, what()))
            continue
        after = dict(td)
        changed_content = before != after
        for snap in at_delivery:
            if snap != after:
                ctx.fail("events/state-at-delivery", "a notifier was called while the dict held %r; the operation leaves %r (before %r): %s"
                         % (snap, after, before, what()))
        for tag in ("first", "last", "only"):
            evs = [e[1:] for e in raw if e[0] == tag]
            if tag == "only" and n_rec != 1 or tag != "only" and n_rec == 1:
                continue
            if changed_content and len(evs) != 1:
                ctx.fail("events/count", "%d events (notifier %s) for a content change; %s after=%r"
                         % (len(evs), tag, what(), after))
            cur = dict(after)
            for (rem, add, chg) in reversed(evs):
                where = "notifier=%s event=%r; %s after=%r" % (tag, (rem, add, chg), what(), after)
                if not (rem or add or chg):
                    ctx.fail("events/all-empty", where)
                if (set(add) & set(chg)) or (set(rem) & set(add)) or (set(rem) & set(chg)):
                    ctx.fail("events/reconstruct" + ("/after-observer" if tag == "last" else ""),
                             "parts overlap: " + where)
                for kk, v in add.items():
                    if not (kk in cur and cur[kk] == v):
                        ctx.fail("events/reconstruct", "added key does not hold the given value: " + where)
                    del cur[kk]
                for kk, v in chg.items():
                    if kk not in cur:
                        ctx.fail("events/reconstruct", "changed key absent afterwards: " + where)
                    cur[kk] = v
                for kk, v in rem.items():
                    if kk in cur:
                        ctx.fail("events/reconstruct", "removed key still present: " + where)
                    cur[kk] = v
            if cur != before:
                ctx.fail("events/reconstruct", "reconstruction %r != previous contents; notifier=%s events=%r; %s after=%r"
                         % (cur, tag, evs, what(), after))
        if mode == "trait":
            if changed_content and len(obs) != 1:
                ctx.fail("observe/count", "%d DictChangeEvents for a content change; %s" % (len(obs), what()))
            cur = dict(after)
            for (rem, add) in reversed(obs):
                for kk, v in add.items():
                    if not (kk in cur and cur[kk] == v):
                        ctx.fail("observe/reconstruct", "added %r not held; %s" % (add, what()))
                    del cur[kk]
                for kk, v in rem.items():
                    if kk in cur:
                        ctx.fail("observe/reconstruct", "removed %r still present; %s" % (rem, what()))
                    cur[kk] = v
            if cur != before:
                ctx.fail("observe/reconstruct", "DictChangeEvent reconstruction %r != previous; obs=%r; %s"
                         % (cur, obs, what()))
    if interesting:
        ctx.nontrivial()


def stages(tier):
    return [{"name": "hist", "kind": "hyp", "strategy": strategy, "run": run,
             "examples": {"quick": 20000, "thorough": 500000}, "shards": 16}]
