"""C11 — deferred traits mirror their target: delegation and prototyping.

Generated deferring classes (DelegatesTo / PrototypedFrom, every prefix style, optional second hop),
histories of: assign via the deferring object (valid / invalid), assign on any candidate delegate,
swap the delegate, delete the local value.  Oracle: a small interpreter of the documented
semantics (resolve the chain; DelegatesTo writes through, PrototypedFrom keeps a local value);
read coherence after every step; exactly-one notification with the new value while linked, none
when the link is broken or the change happens on a former delegate or on another attribute.
"""
from hypothesis import strategies as st

from traits.api import HasTraits, Int, Instance, DelegatesTo, PrototypedFrom, TraitError

ID = "C11"
LEVEL = "exploration"
RULE = ("Hypothesis cases: deferral kind x prefix style (same name, explicit name, 'pre_*', '*' with __prefix__) for one or "
        "two hops, 3 candidate delegates per hop, history of <=20 ops; non-trivial = history containing a delegate swap or a "
        "local override followed by a target change, an invalid assignment, or a two-hop chain; distinct by digest")
ASSUMPTIONS = ["no claim about notifications caused by swapping the delegate object (the statement makes none)",
               "delegates are never None while the deferring attribute is used"]


class D(HasTraits):
    x = Int(1)
    other = Int(2)
    pre_x = Int(3)
    px = Int(9)
    d_x = Int(4)
    q_x = Int(5)
    y = Int(6)
    pre_y = Int(7)
    d_y = Int(8)

    def __repr__(self):
        return "D#%s" % self.__dict__.get("_n", "?")


ATTRS = ("x", "other", "pre_x", "d_x", "q_x", "y", "pre_y", "d_y", "px")


class DF(D):
    """A delegate whose truth value is False (a container-like object that is empty)."""

    def __len__(self):
        return 0


def _dn():
    from traits.api import ComparisonMode
    ns = {a: Int(i + 1, comparison_mode=ComparisonMode.none) for i, a in enumerate(ATTRS)}
    ns["__repr__"] = lambda self: "DN#%s" % self.__dict__.get("_n", "?")
    return type("DN", (HasTraits,), ns)


DN = _dn()          # every target compares by "none": EVERY assignment to it is a change, equal value or not
# style -> (deferring attribute name, prefix argument, function giving the target name from (class prefix))
STYLES = {
    "same": ("x", "", lambda cp: "x"),
    "explicit": ("y", "other", lambda cp: "other"),
    "pre": ("x", "pre_*", lambda cp: "pre_x"),
    "p1": ("x", "p*", lambda cp: "px"),            # a ONE-character prefix before the star
    "star": ("x", "*", lambda cp: cp + "x"),
}
KINDS = {"del": DelegatesTo, "proto": PrototypedFrom}


class Holder(HasTraits):
    d = Instance(HasTraits)


def build_hop1(kind, style, class_prefix="d_", default_delegate=None, listenable=True, link_via=False):
    name, prefix, tf = STYLES[style]
    # (default_delegate: the delegate is never assigned - it is the trait's own, constant, default object)
    ns = {"__prefix__": class_prefix, "d": Instance(type(default_delegate), default_delegate) if default_delegate is not None else Instance(HasTraits),
          name: KINDS[kind]("d", prefix=prefix) if listenable else KINDS[kind]("d", prefix=prefix, listenable=False)}
    if kind == "proto":
        # a SECOND deferring attribute, declared later, for the same delegate and the same target
        ns["alias"] = PrototypedFrom("d", prefix=tf(class_prefix))
    if link_via:
        # the LINK attribute `d` is itself deferred (it lives on a holder object, never in this object's __dict__)
        ns["holder"] = Instance(Holder, ())           # (present from the start: a missing holder at hook-up time is an error)
        ns["d"] = DelegatesTo("holder")
    ns["__repr__"] = lambda self: "Q#%s" % self.__dict__.get("_n", "?")
    return type("Q", (HasTraits,), ns), name, tf(class_prefix)


def build_hop2(kind, style2, name1):
    """Top defers to Q's deferring attribute name1 ('x' or 'y')."""
    if style2 == "same":
        name, prefix = name1, ""
    elif style2 == "explicit":
        name, prefix = "z", name1
    elif style2 == "pre":
        # 'pre_*' prepends: only usable when Q's attribute is pre_<name>; Q's names are x / y, so use a Top attribute whose
        # prefixed name hits one of Q's *plain* traits is impossible -> fall back to explicit
        name, prefix = "z", name1
    else:
        name, prefix = "z", name1
    ns = {"__prefix__": "q_", "m": Instance(HasTraits), name: KINDS[kind]("m", prefix=prefix)}
    return type("Top", (HasTraits,), ns), name


OP = st.one_of(
    st.tuples(st.just("set_via"), st.sampled_from([5, 6, 7, 8, 10, 11, "bad", None, 1.5])),
    st.tuples(st.just("set_via"), st.sampled_from([5, 6, 7, 8, 10, 11, "bad", None, 1.5])),
    # assign exactly the (identical) object the target currently holds: the deferring attribute must still take it
    st.tuples(st.just("set_via_current")),
    st.tuples(st.just("set_via_mid"), st.sampled_from([15, 16, "bad"])),
    st.tuples(st.just("set_target"), st.integers(0, 2), st.integers(10, 14)),
    st.tuples(st.just("set_target"), st.integers(0, 2), st.integers(10, 14)),
    st.tuples(st.just("set_other_attr"), st.integers(0, 2), st.integers(20, 22)),
    st.tuples(st.just("swap"), st.integers(0, 2)),
    st.tuples(st.just("swap_mid"), st.integers(0, 1)),
    # the delegate becomes None for a while (the link to the former delegate is broken), every candidate's target changes,
    # then a delegate is installed again
    st.tuples(st.just("swap_via_none"), st.integers(0, 2), st.integers(40, 44)),
    st.tuples(st.just("del_local")), st.tuples(st.just("del_local_mid")),
    # the second deferring attribute of the same object (PrototypedFrom classes only): local value set / dropped
    st.tuples(st.just("alias_set"), st.integers(30, 32)), st.tuples(st.just("alias_del")),
).map(list)


def strategy(tier):
    return st.fixed_dictionaries({
        "kind1": st.sampled_from(["del", "proto"]),
        "class_prefix": st.sampled_from(["d_", "d_", "q_", "pre_"]),
        "style1": st.sampled_from(["same", "explicit", "pre", "star", "p1"]),
        # second hop: same deferral kind as the first (mixed-kind chains: the statement does not say where a write lands)
        "chain": st.sampled_from([None, None, "same", "explicit"]),
        "ops": st.lists(OP, min_size=1, max_size=20),
        "default_delegate": st.sampled_from([False, False, True]),
        "listenable": st.sampled_from([True, True, True, False]),
        "ctor_local": st.sampled_from([False, False, True]),
        "delegate_class": st.sampled_from([None, None, "falsy", "none"]),
        "link_via": st.sampled_from([False, False, True]),
    })


def run(case, ctx):
    kind1, style1 = case["kind1"], case["style1"]
    if style1 == "star":
        # a second class using the same attribute and delegate names with ANOTHER __prefix__, used first: whatever is
        # remembered per (name, pattern) must not leak into the class under test
        Decoy, dname, dtarget = build_hop1(kind1, style1, class_prefix="q_" if case.get("class_prefix", "d_") == "d_" else "d_")
        dq = Decoy(d=D())
        dq.on_trait_change(lambda: None, dname)
        setattr(dq.d, dtarget, 9)
    dcls = {"falsy": DF, "none": DN}.get(case.get("delegate_class"), D)
    if dcls is not D:
        ctx.label("delegate-class:" + case["delegate_class"])
    ds = [dcls(), dcls(), dcls()]
    # listenable=False: reads, writes and deletes behave the same, only target changes are not announced (not judged then)
    listenable = not (case.get("listenable") is False and not case["chain"])
    if not listenable:
        ctx.label("not-listenable")
    link_via = bool(case.get("link_via")) and not case.get("default_delegate")
    Q, name1, target = build_hop1(kind1, style1, case.get("class_prefix", "d_"), ds[0] if case.get("default_delegate") else None,
                                  listenable, link_via)
    if link_via:
        ctx.label("link-attribute-itself-deferred")
    if case.get("default_delegate"):
        qs = [Q(), Q(d=ds[1])]           # the first object's delegate IS the default object of the trait, never assigned
        ctx.label("default-delegate")
    elif case.get("ctor_local") and kind1 == "proto":
        # the local value of the PrototypedFrom attribute arrives with the CONSTRUCTOR arguments (after the prototype)
        qs = [Q(d=ds[0], **{name1: 77}), Q(d=ds[1])]
        ctx.label("local-value-given-to-the-constructor")
    else:
        qs = [Q(d=ds[0]), Q(d=ds[1])]
    for i, d in enumerate(ds):
        d.__dict__["_n"] = i
    for i, q in enumerate(qs):
        q.__dict__["_n"] = i
    chain = [kind1, case["chain"]] if case["chain"] else None
    # model state
    cur_d = {0: 0, 1: 1}            # which D each Q points to
    local_q = {0: None, 1: None}    # local override on Q (proto only): None = linked
    if case.get("ctor_local") and kind1 == "proto" and not case.get("default_delegate"):
        local_q[0] = 77
    if chain:
        kind2, style2 = chain
        Top, name2 = build_hop2(kind2, style2, name1)
        top = Top(m=qs[0])
        cur_q = 0
        local_top = None
        ctx.label("two-hop")
    else:
        top = None
        cur_q = 0
    front = top if chain else qs[0]
    fname = name2 if chain else name1
    log = []
    front.on_trait_change(lambda obj, n, old, new: log.append(("otc", n, old, new)), fname)
    front.observe(lambda e: log.append(("obs", e.name, e.old, e.new)), fname)

    def snap():
        return [tuple(getattr(d, a) for a in ATTRS) for d in ds], [dict((k, v) for k, v in q.__dict__.items() if k in (name1,)) for q in qs]

    def read_q(qi):
        if kind1 == "proto" and local_q[qi] is not None:
            return local_q[qi]
        return getattr(ds[cur_d[qi]], target)

    def read_front():
        if chain:
            if chain[0] == "proto" and local_top is not None:
                return local_top
            return read_q(cur_q)
        return read_q(0)

    def linked_to(di):
        """Is a change of ds[di].<target> visible through the front attribute?"""
        qi = cur_q if chain else 0
        if chain and chain[0] == "proto" and local_top is not None:
            return False
        if kind1 == "proto" and local_q[qi] is not None:
            return False
        return cur_d[qi] == di

    interesting = bool(chain)
    for op in case["ops"]:
        del log[:]
        k = op[0]
        before = snap()
        what = "kind1=%s style1=%s chain=%s op=%r" % (kind1, style1, chain, op)
        if k in ("alias_set", "alias_del"):
            if kind1 != "proto":
                continue
            q0 = qs[0]
            try:
                if k == "alias_set":
                    q0.alias = op[1]
                elif "alias" in q0.__dict__:
                    del q0.alias
            except Exception as e:
                ctx.fail("write/raised", "%s raised %r" % (what, e))
            interesting = True
            ctx.label("second-deferring-attribute")
            if log:
                ctx.fail("notify/unexpected", "%s (another attribute of the same object) notified the handlers of %s: %r" % (what, fname, log))
            continue
        if k == "set_via_current":
            op = ["set_via", read_front()]
            k = "set_via"
            ctx.label("assign-current-value")
        if k == "set_via":
            v = op[1]
            try:
                setattr(front, fname, v)
                ok = True
            except TraitError:
                ok = False
            except Exception as e:
                ctx.fail("write/raised", "%s raised %r" % (what, e))
            valid = type(v) is int
            if ok != valid:
                ctx.fail("write/validation", "assigning %r through the deferring attribute %s: %s"
                         % (v, "accepted" if ok else "rejected", what))
            if not ok:
                interesting = True
                ctx.label("invalid-assignment")
                if snap() != before:
                    ctx.fail("write/invalid-changed-something", "rejected assignment changed state: %s" % what)
                if log:
                    ctx.fail("write/invalid-notified", "rejected assignment notified %r: %s" % (log, what))
            else:
                # where must it land?
                if chain and chain[0] == "proto":
                    local_top = v
                    exp_ds = before[0]
                    if snap()[0] != exp_ds or snap()[1] != before[1]:
                        ctx.fail("write/proto-leaked", "PrototypedFrom assignment changed the prototype chain: %s" % what)
                else:
                    qi = cur_q if chain else 0
                    if kind1 == "proto":
                        local_q[qi] = v
                        if snap()[0] != before[0]:
                            ctx.fail("write/proto-leaked", "PrototypedFrom assignment changed a delegate: %s" % what)
                    else:
                        di = cur_d[qi]
                        if getattr(ds[di], target) != v:
                            ctx.fail("write/delegate-not-updated", "%s.%s is %r after assigning %r via the deferring attribute: %s"
                                     % (ds[di], target, getattr(ds[di], target), v, what))
                        now = snap()[0]
                        for i in range(3):
                            exp = list(before[0][i])
                            if i == di:
                                exp[ATTRS.index(target)] = v
                            if tuple(exp) != now[i]:
                                ctx.fail("write/wrong-place", "assignment via the deferring attribute changed %s: %r -> %r: %s"
                                         % (ds[i], before[0][i], now[i], what))
                        if name1 in qs[qi].__dict__ or (chain and fname in top.__dict__):
                            ctx.fail("write/stored-locally", "DelegatesTo stored a value on the deferring object: %s" % what)
        elif k == "set_via_mid":
            if not chain:
                continue
            v = op[1]
            q = qs[cur_q]
            try:
                setattr(q, name1, v)
                ok = True
            except TraitError:
                ok = False
            if ok != (type(v) is int):
                ctx.fail("write/validation", "assigning %r to the middle object: %s" % (v, what))
            if ok:
                old_front = None
                if kind1 == "proto":
                    local_q[cur_q] = v
                exp = 1 if not (chain[0] == "proto" and local_top is not None) else 0
                # middle attribute changed (or its delegate did): the front attribute must announce it once, if the value differs
                if exp and all(len([l for l in log if l[0] == mech]) > 1 for mech in ("otc", "obs")):
                    ctx.fail("notify/duplicate", "one change of the middle attribute notified %r: %s" % (log, what))
        elif k == "set_target":
            di = op[1]
            d = ds[di]
            old = getattr(d, target)
            setattr(d, target, op[2])
            exp = 1 if (linked_to(di) and (old != op[2] or dcls is DN)) else 0
            if exp:
                ctx.label("linked-target-change")
            for mech in (("otc", "obs") if listenable else ()):
                got = [l for l in log if l[0] == mech]
                if len(got) != exp:
                    ctx.fail("notify/%s" % ("missed" if exp else "unexpected"),
                             "%s.%s: %r -> %r produced %d %s notification(s) on the deferring attribute, expected %d: %s"
                             % (d, target, old, op[2], len(got), mech, exp, what))
                if exp and got[0][3] != op[2]:
                    ctx.fail("notify/value", "notification carries new=%r, target now %r: %s" % (got[0][3], op[2], what))
        elif k == "set_other_attr":
            d = ds[op[1]]
            for a in ATTRS:
                if a != target:
                    setattr(d, a, op[2] + ATTRS.index(a))
            if log:
                ctx.fail("notify/wrong-attribute", "changing other attributes of %s notified %r: %s" % (d, log, what))
        elif k == "swap":
            qi = cur_q if chain else 0
            cur_d[qi] = op[1]
            qs[qi].d = ds[op[1]]
            interesting = True
            ctx.label("swap")
        elif k == "swap_via_none":
            qi = cur_q if chain else 0
            try:
                qs[qi].d = None
            except Exception as e:
                ctx.fail("write/raised", "setting the delegate to None raised %r: %s" % (e, what))
            del log[:]
            for di in range(3):
                setattr(ds[di], target, op[2] + di)
                if log:
                    ctx.fail("notify/unexpected", "%s.%s changed while the delegate is None (link broken) but the deferring attribute's "
                             "handlers were notified %r: %s" % (ds[di], target, log, what))
            cur_d[qi] = op[1]
            qs[qi].d = ds[op[1]]
            del log[:]
            interesting = True
            ctx.label("swap-via-none")
        elif k == "swap_mid":
            if not chain:
                continue
            cur_q = op[1]
            top.m = qs[cur_q]
            interesting = True
            ctx.label("swap-mid")
        elif k == "del_local":
            is_proto = chain[0] == "proto" if chain else kind1 == "proto"
            if not is_proto:
                continue
            try:
                delattr(front, fname)
            except Exception as e:
                ctx.fail("delete/raised", "deleting the local value raised %r: %s" % (e, what))
            if chain:
                local_top = None
            else:
                local_q[0] = None
            ctx.label("delete-local")
        elif k == "del_local_mid":
            if not chain or kind1 != "proto":
                continue
            try:
                delattr(qs[cur_q], name1)
            except Exception as e:
                ctx.fail("delete/raised", "deleting the middle local value raised %r: %s" % (e, what))
            local_q[cur_q] = None
        # ---- read coherence
        got = getattr(front, fname)
        exp = read_front()
        if got != exp:
            ctx.fail("read/stale", "deferring attribute reads %r, target chain gives %r after %s" % (got, exp, what))
        if any(v is not None for v in local_q.values()) or (chain and local_top is not None):
            ctx.label("local-override-active")
            interesting = True
    if interesting:
        ctx.nontrivial()


def stages(tier):
    return [{"name": "hist", "kind": "hyp", "strategy": strategy, "run": run,
             "examples": {"quick": 24000, "thorough": 400000}, "shards": 16}]
