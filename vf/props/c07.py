"""C07 — TraitSet refines set; events are faithful deltas; copies are equal and still validate.

Hypothesis histories over every mutator with overlapping / disjoint / invalid arguments over a
small universe, identity / coercing / rejecting validators, copy/deepcopy/pickle at generated
points (the history continues on the copy).  Also a Set(Int) trait of a HasTraits object.
Oracle: builtin-set model on validated items + delta law + copy laws.
"""
import copy
import pickle

from hypothesis import strategies as st

from traits.api import HasTraits, Set, Int
from traits.trait_set_object import TraitSet
from traits.trait_errors import TraitError
from vf.values import dec

ID = "C07"
LEVEL = "exploration"
RULE = ("Hypothesis op histories (<=14 ops) over add/discard/remove/pop/clear/update/|=/&=/-=/^=/difference_update/"
        "intersection_update/symmetric_difference_update with 0-3 iterables over a 10-element universe and copy "
        "operations; non-trivial = history with an argument partially overlapping the state, an invalid or "
        "unhashable item, or a copy mid-history; distinct by digest")
ASSUMPTIONS = ["for ^= / symmetric_difference_update with a *coercing* validator the reference is 'validate only the "
               "items that will be added' (documented behaviour); for all other validators builtin semantics on validated items",
               "items are validated, then hashed, one at a time, left to right"]


def v_ident(x):
    return x


def v_coerce(x):
    if isinstance(x, str) and x.isdigit():
        return int(x)
    return x


def v_reject(x):
    if isinstance(x, int) and x < 0 or x is None:
        raise TraitError("rejected")
    return x


def v_int(x):
    # Int's documented conversion: an int (incl. bool and other subclasses) is stored as an exact int; nothing else passes
    if isinstance(x, int):
        return int(x)
    raise TraitError("not an int")


def v_strict(x):
    # NOT idempotent: accepts digit strings only and turns them into ints - it rejects its own results
    if isinstance(x, str) and x.isdigit():
        return int(x)
    raise TraitError("not a digit string")


VALIDATORS = {"ident": v_ident, "coerce": v_coerce, "reject": v_reject, "trait": v_int, "strict": v_strict}


class Holder(HasTraits):
    s = Set(Int)


# (every int has a second raw spelling that the coercing validator maps onto it: collisions of raw forms are frequent)
# 1.0 / 2.0 / True are EQUAL to members but are other objects: removing operations must never swap them in
# ({"fs": [1]} is the member frozenset({1}); remove / discard / `in` also accept the equal SET {1} for it, as set does)
ITEM = st.sampled_from([0, 1, 2, 3, 4, "0", "1", "2", "3", "4", 1, 2, "1", "2", -1, None, {"t": [1]}, 1.0, 2.0, True, {"fs": [1]},
                        {"fs": [1]}])
SETARG = st.sampled_from([{"s": [1]}, {"s": [1]}, {"s": [2]}, {"s": []}])
BAD = st.sampled_from([{"l": [1]}, {"d": []}])
ITEMS = st.lists(st.one_of(ITEM, ITEM, ITEM, ITEM, ITEM, ITEM, ITEM, ITEM, BAD), max_size=4)
ARGS = st.lists(ITEMS, max_size=3)
OP = st.one_of(
    st.tuples(st.just("add"), st.one_of(ITEM, BAD)),
    st.tuples(st.just("discard"), st.one_of(ITEM, BAD, SETARG)),
    st.tuples(st.just("remove"), st.one_of(ITEM, BAD, SETARG)),
    st.tuples(st.just("pop")),
    st.tuples(st.just("clear")),
    st.tuples(st.just("update"), ARGS),
    st.tuples(st.just("difference_update"), ARGS),
    st.tuples(st.just("intersection_update"), ARGS),
    st.tuples(st.just("symmetric_difference_update"), ITEMS),
    st.tuples(st.sampled_from(["ior", "iand", "isub", "ixor"]), ITEMS, st.sampled_from(["set", "set", "frozenset", "list"])),
    # the set ITSELF as the argument
    st.tuples(st.sampled_from(["self:ior", "self:iand", "self:isub", "self:ixor", "self:update", "self:difference_update",
                               "self:intersection_update", "self:symmetric_difference_update"])),
    st.tuples(st.just("copy"), st.sampled_from(["copy", "deepcopy", "p0", "p1", "p2", "p3", "p4", "p5"])),
).map(list)


def strategy(tier):
    return st.fixed_dictionaries({
        "validator": st.sampled_from(["ident", "coerce", "reject", "reject", "trait", "strict"]),
        "init": st.lists(st.integers(0, 4), max_size=4),
        "oneshot": st.booleans(),
        "ops": st.lists(OP, min_size=1, max_size=14),
    })


class Skip(Exception):
    pass


def mkarg(items, kind):
    if kind == "list":
        return list(items)
    try:
        return set(items) if kind == "set" else frozenset(items)
    except TypeError:
        raise Skip()


def model_apply(m, name, args, val):
    """Builtin-set semantics on validated items; returns result. Mutates m only on success."""
    def vs(items):
        out = []
        for x in items:
            y = val(x)
            hash(y)
            out.append(y)
        return out
    if name == "add":
        y = val(args[0]); hash(y); m.add(y)
    elif name == "discard":
        m.discard(args[0])
    elif name == "remove":
        m.remove(args[0])
    elif name == "pop":
        return m.pop()
    elif name == "clear":
        m.clear()
    elif name == "update":
        new = []
        for it in args[0]:
            new.extend(vs(it))
        m.update(new)
    elif name == "difference_update":
        m.difference_update(*args[0])       # the builtin itself: items are not validated by removing ops
    elif name == "intersection_update":
        inter = set(m).intersection(*args[0])          # (raises what the builtin raises)
        for x in [x for x in m if x not in inter]:     # the set keeps ITS OWN (validated) items, cf. C04 / F36
            m.discard(x)
    elif name == "symmetric_difference_update":
        sym(m, set(args[0]), val)
    elif name in ("ior", "iand", "isub", "ixor"):
        a = args[0]
        if not isinstance(a, (set, frozenset)):
            raise TypeError("unsupported operand")
        if name == "ior":
            m |= set(vs(a))
        elif name == "iand":
            for x in [x for x in m if x not in a]:
                m.discard(x)
        elif name == "isub":
            m -= a
        else:
            sym(m, set(a), val)
    return None


def sym(m, values, val):
    removed = m & values
    added = {val(x) for x in values - removed} - m
    m -= removed
    m |= added


def impl_apply(s, name, args):
    if name == "add":
        s.add(args[0])
    elif name == "discard":
        s.discard(args[0])
    elif name == "remove":
        s.remove(args[0])
    elif name == "pop":
        return s.pop()
    elif name == "clear":
        s.clear()
    elif name in ("update", "difference_update", "intersection_update"):
        getattr(s, name)(*args[0])
    elif name == "symmetric_difference_update":
        s.symmetric_difference_update(args[0])
    elif name == "ior":
        s |= args[0]
    elif name == "iand":
        s &= args[0]
    elif name == "isub":
        s -= args[0]
    elif name == "ixor":
        s ^= args[0]
    return None


def unhashable(x):
    try:
        hash(x)
    except TypeError:
        return True
    return False


def same_set(a, b):
    return set(a) == set(b) and sorted(map(repr, a)) == sorted(map(repr, b))


def run(case, ctx):
    vname = case["validator"]
    val = VALIDATORS[vname]
    events = []

    def rec(ts, removed, added):
        events.append((set(removed), set(added)))
    if vname == "trait":
        holder = Holder(s=set(case["init"]))
        ts = holder.s
        obs = []
        holder.observe(lambda e: obs.append((set(e.removed), set(e.added))), "s.items")
    else:
        holder, obs = None, None
        ts = TraitSet([str(i) for i in case["init"]] if vname == "strict" else case["init"], item_validator=val)
    if case.get("oneshot") and holder is None:
        # a notifier AHEAD of the recording one that takes itself off the list when it is first called
        def one_shot(t, removed, added):
            t.notifiers.remove(one_shot)
        ts.notifiers.append(one_shot)
        ctx.label("one-shot-notifier-ahead")
    ts.notifiers.append(rec)
    model = set(case["init"])
    interesting = False

    for op in case["ops"]:
        name = op[0]
        what = lambda: "validator=%s op=%r before=%r" % (vname, op, before)
        before = set(ts)
        if name == "copy":
            how = op[1]
            interesting = True
            ctx.label("copy:" + how)
            try:
                if how == "copy":
                    c = copy.copy(ts)
                elif how == "deepcopy":
                    c = copy.deepcopy(ts)
                else:
                    c = pickle.loads(pickle.dumps(ts, int(how[1])))
            except Exception as e:
                ctx.fail("copy/raises/" + ("deepcopy" if how == "deepcopy" else "pickle" if how[0] == "p" else "copy"),
                         "%s raised %r; %s" % (how, e, what()))
            if not isinstance(c, TraitSet) or not same_set(c, model):
                ctx.fail("copy/equal", "%s gives %r (%s), expected %r" % (how, c, type(c).__name__, model))
            if c is ts:
                ctx.fail("copy/equal", "%s returned the same object" % how)
            # still validates: an invalid item is rejected with TraitError, a valid one accepted
            if vname in ("reject", "strict") or (vname == "trait" and how in ("deepcopy", "copy")):
                # (a TraitSetObject that is PICKLED on its own comes back disconnected from its trait - its state has neither
                #  the owner nor the trait; C14 covers pickling it together with its owner.  A shallow copy shares the
                #  original's validator, which still knows the trait while the original lives - as it does here)
                try:
                    c.add(None)
                except TraitError:
                    pass
                except Exception as e:
                    ctx.fail("copy/validates", "copy (%s) raised %r for an invalid item" % (how, e))
                else:
                    ctx.fail("copy/validates", "copy (%s) accepted an invalid item: %r" % (how, c))
            if vname == "coerce":
                c.add("7")
                if 7 not in c or "7" in c:
                    ctx.fail("copy/validates", "copy (%s) no longer coerces: %r" % (how, c))
                c.discard(7)
            del events[:]
            n_before = len(events)
            c.add("9" if vname == "strict" else 9)
            c.discard(9)
            if events:
                ctx.fail("copy/notifiers", "the copy (%s) carries the original's notifier" % how)
            if holder is None:
                # continue the history on the copy
                ts = c
                ts.notifiers.append(rec)
            continue
        args = [dec(a) for a in op[1:]]
        try:
            if name in ("ior", "iand", "isub", "ixor"):
                args = [mkarg(args[0], args[1])]
            elif name == "symmetric_difference_update":
                try:
                    set(args[0])
                except TypeError:
                    pass
        except Skip:
            continue
        ctx.label("op:" + name)
        del events[:]
        if obs is not None:
            del obs[:]
        m2 = set(model)
        margs, iargs = args, args
        if name.startswith("self:"):
            name = name[5:]
            interesting = True
            snap = set(model)                 # (for a builtin set, s <op>= s behaves like s <op>= set(s))
            margs = [snap] if name in ("ior", "iand", "isub", "ixor", "symmetric_difference_update") else [[snap]]
            iargs = [ts] if name in ("ior", "iand", "isub", "ixor", "symmetric_difference_update") else [[ts]]
        args = margs
        try:
            r2, e2 = model_apply(m2, name, margs, val), None
        except Exception as e:
            r2, e2, m2 = None, e, set(model)
        try:
            r1, e1 = impl_apply(ts, name, iargs), None
        except Exception as e:
            r1, e1 = None, e
        if (e2 is None and type(e1) is TypeError and name in ("difference_update", "intersection_update")
                and any(unhashable(x) for it in args[0] for x in it)):
            # CPython's set skips hashing some items (e.g. {0}.intersection_update([0, [1]]) succeeds):
            # an optimisation artefact; raising TypeError for an unhashable item and changing nothing is as good
            ctx.label("builtin-shortcut-not-followed")
            e2, m2 = e1, set(model)
        if e2 is not None:
            interesting = True
            ctx.label("failing-op")
        sig = ""
        if name == "difference_update" and e2 is not None:
            sig = "/difference_update-partial"
        if (e1 is None) != (e2 is None) or (e1 is not None and type(e1) is not type(e2)):
            ctx.fail("refine/exception", "TraitSet: %r, set: %r; %s" % (e1, e2, what()))
        if name == "pop" and e1 is None:
            # any element may be popped: follow the implementation's choice
            if r1 not in model:
                ctx.fail("refine/result", "pop returned %r which was not a member; %s" % (r1, what()))
            m2 = set(model)
            m2.discard(r1)
        if e1 is not None:
            if not same_set(ts, before):
                ctx.fail("refine/untouched" + sig, "failing op changed contents to %r; %s" % (set(ts), what()))
            if events:
                ctx.fail("events/on-failure", "failing op notified %r; %s" % (events, what()))
            continue
        if not same_set(ts, m2):
            ctx.fail("refine/contents", "TraitSet %r, set %r; %s" % (set(ts), m2, what()))
        model = m2
        after = set(ts)
        if after != before:
            if before & after and (before - after or after - before):
                interesting = True
                ctx.label("partial-overlap")
            if len(events) != 1:
                ctx.fail("events/count", "%d events for a content change; %s after=%r" % (len(events), what(), after))
        elif events:
            ctx.fail("events/silent", "no-change op notified %r; %s" % (events, what()))
        cur = set(before)
        for (rem, add) in events:
            if not rem <= cur or add & cur:
                ctx.fail("events/delta", "removed %r / added %r do not fit previous contents %r; %s" % (rem, add, cur, what()))
            cur = (cur - rem) | add
        if cur != after:
            ctx.fail("events/delta", "(prev - removed) | added = %r, contents %r; %s" % (cur, after, what()))
        if obs is not None:
            if after != before and len(obs) != 1:
                ctx.fail("observe/count", "%d SetChangeEvents for a content change; %s" % (len(obs), what()))
            cur = set(before)
            for (rem, add) in obs:
                if not rem <= cur or add & cur:
                    ctx.fail("observe/delta", "SetChangeEvent removed %r / added %r vs %r; %s" % (rem, add, cur, what()))
                cur = (cur - rem) | add
            if cur != after:
                ctx.fail("observe/delta", "SetChangeEvent replay %r != %r; %s" % (cur, after, what()))
    if interesting:
        ctx.nontrivial()


def stages(tier):
    return [{"name": "hist", "kind": "hyp", "strategy": strategy, "run": run,
             "examples": {"quick": 20000, "thorough": 500000}, "shards": 16}]
