"""C16 — legacy on_trait_change extended names agree with observe on unshared graphs.

Tree-shaped object graphs (a fresh object at every insertion), an extended name from the fragment
expressible in both systems (links through Instance / List / Dict / Set traits, '.' and ':' mixes,
depth <= 3) with the corresponding observe expression, a 4-argument on_trait_change handler and an
observe handler, both recording.  After every mutation the final attribute of EVERY object ever
created is probed: legacy called iff observe called iff the object is currently reachable along the
name (from-scratch walk).  Finally both registrations are removed and nothing may be called.
"""
from hypothesis import strategies as st

from traits.api import HasTraits, Int, Str, Instance, List, Dict, Set

ID = "C16"
LEVEL = "exploration"
RULE = ("Hypothesis cases: extended name of 1-3 links x history of <=15 mutations (reassignments to None / fresh objects, list "
        "append/pop/slice/reverse/sort/whole-value, dict set/pop/update mixing new and existing keys, set add/discard), "
        "registered plainly or with deferred=True; "
        "non-trivial = a link is re-pointed or a container item replaced/reordered before a probe; distinct by digest")
ASSUMPTIONS = ["explicit values only (no pending defaults) and no sharing: the statement's precondition",
               "4-argument legacy handlers only; in-place container mutations are not part of the link-event comparison "
               "(legacy reporting of name_items is documented only as 'may report'): only final-attribute reachability is compared after them"]


class Node(HasTraits):
    value = Int
    # two attributes carrying the metadata `lvl` - with FALSY values (a name ending in `+lvl` selects every trait whose
    # `lvl` metadata is defined, i.e. not None)
    m0 = Int(lvl=0)
    m1 = Int(lvl=False)
    child = Instance(HasTraits)
    child2 = Instance(HasTraits)          # second Instance link, used in the bracket group [child,child2]
    children = List(Instance(HasTraits))
    table = Dict(Str, Instance(HasTraits))
    group = Set(Instance(HasTraits))

    def __repr__(self):
        return "N%s" % self.__dict__.get("_nid", "?")


class EqNode(Node):
    """Nodes with VALUE-BASED equality (two classes of equal nodes): distinct objects that compare equal."""

    def __eq__(self, other):
        return isinstance(other, EqNode) and self.__dict__.get("_eqk") == other.__dict__.get("_eqk")

    def __hash__(self):
        return hash(self.__dict__.get("_eqk"))


class DynNode(Node):
    """The container links have dynamic default initialisers (never used here: every node gets explicit values)."""

    def _children_default(self):
        return []

    def _table_default(self):
        return {}

    def _group_default(self):
        return set()


GRP = "[child,child2]"          # a bracket group of two Instance links (simple names only)
LINKS = ["child", "children", "table", "group", GRP]
CONTAINERS = ("children", "table", "group")


def follow(o, l):
    """Objects one link further."""
    if l == "child":
        return [o.child] if o.child is not None else []
    if l == GRP:
        return [v for v in (o.child, o.child2) if v is not None]
    v = getattr(o, l)
    return list(v.values()) if l == "table" else list(v)


def names(p, final="value"):
    otc = obs = ""
    for (l, n) in p:
        sep = "." if n else ":"
        otc += l + sep
        obs += l + sep + ("items" + sep if l in CONTAINERS else "")
    # (a bracket group is written the same way in both systems)
    return otc + final, obs + final


def reachable(root, p):
    objs = [root]
    for (l, n) in p:
        nxt = []
        for o in objs:
            nxt.extend(follow(o, l))
        objs = nxt
    return {id(o) for o in objs}


I30 = st.integers(0, 30)
OP = st.one_of(
    st.tuples(st.just("set_child"), I30, st.booleans()), st.tuples(st.just("set_child"), I30, st.booleans()),
    st.tuples(st.just("set_child"), I30, st.booleans(), st.just(True)),          # ... the second Instance link, child2
    st.tuples(st.just("set_child"), I30, st.just(True), st.booleans(), st.just(True)),      # ... an already populated object
    st.tuples(st.just("set_child"), I30, st.just(True), st.booleans(), st.just(True)),
    st.tuples(st.just("append"), I30), st.tuples(st.just("append"), I30), st.tuples(st.just("pop"), I30, st.integers(-2, 2)),
    st.tuples(st.just("set_children"), I30, st.integers(0, 3)), st.tuples(st.just("slice"), I30, st.integers(0, 2)),
    st.tuples(st.just("reverse"), I30), st.tuples(st.just("sort"), I30), st.tuples(st.just("insert"), I30, st.integers(-2, 2)),
    st.tuples(st.just("table_set"), I30, st.sampled_from("ab")), st.tuples(st.just("table_pop"), I30, st.sampled_from("ab")),
    st.tuples(st.just("table_update"), I30, st.lists(st.sampled_from("abc"), min_size=1, max_size=3, unique=True)),
    st.tuples(st.just("set_table"), I30, st.lists(st.sampled_from("abc"), max_size=2, unique=True)),
    st.tuples(st.just("group_add"), I30), st.tuples(st.just("group_pop"), I30), st.tuples(st.just("set_group"), I30, st.integers(0, 2)),
).map(list)


def strategy(tier):
    return st.fixed_dictionaries({
        "path": st.lists(st.tuples(st.sampled_from(LINKS), st.booleans()).map(list), min_size=1, max_size=3),
        "ops": st.lists(OP, min_size=1, max_size=15),
        # deferred=True is how the @on_trait_change decorator registers; every container is still empty when its owner
        # is hooked (fresh objects at every insertion), so the promised behaviour is the same
        "deferred": st.sampled_from([False, False, True]),
        # handler signature: (object, name, old, new) | (new) | (name, new).  The two short forms cannot tell a link change
        # from a change of the final attribute; they are generated with quiet (':') links only, where the documentation
        # promises silence for every link change
        "sig": st.sampled_from([4, 4, 4, 1, 2]),
        # nodes with value-based equality: an item may be replaced by a distinct object that compares EQUAL to it
        "eqnodes": st.sampled_from([False, False, True]),
        # node class whose container links have `_<name>_default` methods (unused: all values are explicit)
        "dyn_defaults": st.sampled_from([False, False, True]),
        "decoy": st.sampled_from([False, False, True]),
        # the final segment: the attribute `value`, or every attribute that defines the metadata `lvl`
        "final": st.sampled_from(["value", "value", "+lvl"]),
    })


def run(case, ctx):
    p = case["path"]
    sig = case.get("sig", 4)
    loud_short = False
    if sig != 4:
        if all(l == "child" for l, _ in p) and any(fl for _, fl in p):
            # Instance-only path with '.' links: a link change is mapped to its effect on the final attribute (documented),
            # so calls during link operations are not judged - only which objects the handler still follows
            loud_short = True
            ctx.label("short-handler-signature-dotted")
        else:
            p = [[l, False] for l, _ in p]
        ctx.label("short-handler-signature")
    final = case.get("final") or "value"
    if sig != 4:
        final = "value"
    if final != "value":
        ctx.label("final-segment-selected-by-metadata")
    otc_name, obs_name = names(p, final)
    created = []

    def init(n):
        n.child = None
        n.child2 = None
        n.children = []
        n.table = {}
        n.group = set()

    eqn = bool(case.get("eqnodes"))
    if eqn:
        ctx.label("value-equal-nodes")

    def fresh():
        n = EqNode() if eqn else DynNode() if case.get("dyn_defaults") else Node()
        n.__dict__["_eqk"] = len(created) % 2
        n.__dict__["_nid"] = len(created)
        created.append(n)
        init(n)
        return n
    root = fresh()
    A, B = [], []
    from traits.api import push_exception_handler as _push, pop_exception_handler as _pop
    _push(handler=lambda *a: None, reraise_exceptions=False, main=True)
    try:
        return _run_body(case, ctx, p, sig, loud_short, otc_name, obs_name, created, fresh, root, A, B, eqn, final)
    finally:
        _pop()


def _run_body(case, ctx, p, sig, loud_short, otc_name, obs_name, created, fresh, root, A, B, eqn, final="value"):
    finals = ("value",) if final == "value" else ("m0", "m1")

    if sig == 4:
        def h_otc(obj, name, old, new):
            A.append((id(obj), name))
    elif sig == 1:
        def h_otc(new):
            A.append(("?", "?"))
    else:
        def h_otc(name, new):
            A.append(("?", name))

    def h_obs(e):
        B.append((id(e.object), getattr(e, "name", "items")))
    if case.get("deferred"):
        root.on_trait_change(h_otc, otc_name, deferred=True)
        ctx.label("deferred-registration")
    else:
        root.on_trait_change(h_otc, otc_name)
    root.observe(h_obs, obs_name)
    if case.get("decoy"):
        # ANOTHER extended name registered on the same object and removed again straight away: the first registration is
        # none of its business
        def h_decoy(obj, name, old, new):
            A.append(("decoy", name))
        root.on_trait_change(h_decoy, "child2:child:value")
        root.on_trait_change(h_decoy, "child2:child:value", remove=True)
        ctx.label("another-extended-name-came-and-went")
    interesting = False

    def probe(tag):
        r = reachable(root, p)
        for n in list(created):
          for fa in finals:
            del A[:], B[:]
            setattr(n, fa, getattr(n, fa) + 1)
            a = [x for x in A if x == (id(n), fa)] if sig == 4 else list(A)
            b = [x for x in B if x == (id(n), fa)]
            exp = 1 if id(n) in r else 0
            if len(a) != exp:
                ctx.fail("legacy/%s" % ("missed" if exp else "unexpected"),
                         "%r after %r: changing %r.%s called the legacy handler %d time(s), expected %d (observe: %d)"
                         % (otc_name, tag, n, fa, len(a), exp, len(b)))
            if len(b) != exp:
                ctx.fail("observe/%s" % ("missed" if exp else "unexpected"),
                         "%r after %r: changing %r.%s called the observe handler %d time(s), expected %d"
                         % (obs_name, tag, n, fa, len(b), exp))
            ctx.label("probe-reachable" if exp else "probe-unreachable")
    probe("registration")
    for op in case["ops"]:
        k = op[0]
        # owner: one of the objects currently on the path (construction), else any created object
        onpath = [root]
        objs = [root]
        for (l, nflag) in p[:-1]:
            nxt = []
            for o in objs:
                nxt.extend(follow(o, l))
            objs = nxt
            onpath.extend(objs)
        n = onpath[op[1] % len(onpath)] if op[1] % 3 else created[op[1] % len(created)]
        del A[:], B[:]
        link = None
        old_vals = {"child": n.child, "child2": n.child2, "children": list(n.children), "table": dict(n.table), "group": set(n.group)}
        equal_swap = False
        if k == "set_child":
            new_child = fresh() if op[2] else None
            if new_child is not None and len(op) > 4 and op[4]:
                # the new object arrives with its links ALREADY populated (fresh objects throughout)
                new_child.child = fresh()
                new_child.children = [fresh(), fresh()]
                new_child.table = {"a": fresh()}
                new_child.group = {fresh()}
                ctx.label("link-assigned-a-populated-object")
            old_link_value = n.child2 if (len(op) > 3 and op[3]) else n.child
            if eqn and new_child is not None and old_link_value is not None and new_child == old_link_value:
                # a distinct object that compares EQUAL to the old one: whether the assignment itself is REPORTED is the
                # comparison mode's business (not compared); the listeners must move to the new object all the same
                equal_swap = True
            if len(op) > 3 and op[3]:
                n.child2 = new_child
                link = "child2"
            else:
                n.child = new_child
                link = "child"
        elif k == "append":
            n.children.append(fresh())
        elif k == "insert":
            n.children.insert(op[2], fresh())
        elif k == "pop":
            try:
                n.children.pop(op[2])
            except IndexError:
                pass
        elif k == "set_children":
            new_c = [fresh() for _ in range(op[2])]
            equal_swap = eqn and new_c == old_vals["children"] and bool(new_c)
            n.children = new_c
            link = "children"
        elif k == "slice":
            n.children[0:1] = [fresh() for _ in range(op[2])]
        elif k == "reverse":
            n.children.reverse()
            if len(n.children) > 1:
                interesting = True
                ctx.label("reordered")
        elif k == "sort":
            n.children.sort(key=lambda x: -x.__dict__["_nid"])
            if len(n.children) > 1:
                interesting = True
                ctx.label("reordered")
        elif k == "table_set":
            n.table[op[2]] = fresh()
        elif k == "table_pop":
            n.table.pop(op[2], None)
        elif k == "table_update":
            had = set(n.table)
            n.table.update({key: fresh() for key in op[2]})
            if had & set(op[2]) and set(op[2]) - had:
                interesting = True
                ctx.label("update-adds-and-overwrites")
        elif k == "set_table":
            new_c = {key: fresh() for key in op[2]}
            equal_swap = eqn and new_c == old_vals["table"] and bool(new_c)
            n.table = new_c
            link = "table"
        elif k == "group_add":
            n.group.add(fresh())
        elif k == "group_pop":
            if n.group:
                n.group.pop()
        elif k == "set_group":
            new_c = {fresh() for _ in range(op[2])}
            equal_swap = eqn and new_c == old_vals["group"] and bool(new_c)
            n.group = new_c
            link = "group"
        if sig != 4 and A and not loud_short:
            ctx.fail("links/quiet-link-reported", "%r: %r on %r (all links quiet) called the %d-argument legacy handler: %r"
                     % (otc_name, op, n, sig, A))
        if equal_swap:
            interesting = True
            ctx.label("link-assigned-an-equal-but-distinct-value")
            link = None
            del A[:], B[:]
        if link is not None and sig != 4:
            interesting = True
            ctx.label("link-repointed")
            link = None
        if link is not None:
            interesting = True
            ctx.label("link-repointed")
            # assignments to intermediate link traits: reported by both for '.' links, by neither for ':' links
            a_links = sorted((o, nm) for (o, nm) in A if not nm.endswith("_items"))
            b_links = sorted((o, nm) for (o, nm) in B if nm != "items")
            if a_links != b_links:
                ctx.fail("links/disagree", "%r / %r: assignment %r on %r reported as %r by the legacy handler and %r by observe"
                         % (otc_name, obs_name, op, n, a_links, b_links))
            # and per the '.'/':' rule
            depth_flags = {}
            objs = [root]
            for (l, nflag) in p:
                for o in objs:
                    for l_ in (("child", "child2") if l == GRP else (l,)):
                        depth_flags[(id(o), l_)] = nflag
                nxt = []
                for o in objs:
                    nxt.extend(follow(o, l))
                objs = nxt
            want = depth_flags.get((id(n), link))
            got = (id(n), link) in b_links
            new_val = getattr(n, link)
            really_changed = (new_val is not old_vals[link]) if link in ("child", "child2") else (new_val != old_vals[link])
            if want is not None and bool(want and really_changed) != got and (id(n), link) in depth_flags:
                ctx.fail("links/notify-flag", "%r: assignment to %r.%s (link written with %r) reported=%r"
                         % (obs_name, n, link, "." if want else ":", got))
        probe(op)
    root.on_trait_change(h_otc, otc_name, remove=True)
    root.observe(h_obs, obs_name, remove=True)
    for n in created:
        del A[:], B[:]
        n.value += 1
        n.m0 += 1
        n.m1 += 1
        if A:
            ctx.fail("removal/legacy-still-called", "%r: legacy handler called after remove=True (%r)" % (otc_name, A))
        if B:
            ctx.fail("removal/observe-still-called", "%r: observe handler called after remove=True (%r)" % (obs_name, B))
    if interesting:
        ctx.nontrivial()


def stages(tier):
    return [{"name": "hist", "kind": "hyp", "strategy": strategy, "run": run,
             "examples": {"quick": 30000, "thorough": 400000}, "shards": 16}]
