"""C01 — assigned values always lie in the trait's declared domain.

For every configuration an object is driven through a *sequence* of assignments (the whole value
lattice, through setattr / trait_set / trait_setq / constructor keyword), so a rejected assignment
is always judged against a previously assigned value, not only against the default.
Oracle: documentation-derived reference (accept+stored / reject / unspecified) + independent domain
predicate on whatever is readable afterwards + snapshot equality on rejection.
"""
from hypothesis import strategies as st

from traits import api as T
from traits.trait_errors import TraitError
from vf import lattice as L
from vf import values as V
from vf.props import c03 as C3

ID = "C01"
LEVEL = "exploration"
RULE = ("grid: every (configuration, route, lattice value) triple, each configuration x route driven through the whole "
        "lattice on one object in two orders (exhaustive inside grid x lattice); random: Hypothesis-generated nested "
        "specifications (Either/Union/Tuple/List/Dict/Set of the leaves) with spec-derived and random values; five routes "
        "(setattr, trait_set, trait_setq, constructor, through a PrototypedFrom attribute); xgrid/xrandom (vf/props/c01x.py): "
        "arrays (dtype x shape x casting x class), dates/times, UUID, paths, Expression, WeakRef, coercing containers, "
        "dynamic Range/Enum, validated Properties and 27 Base*/alias classes x 4 routes x 190 values; "
        "non-trivial = value not already of the exact stored form (a conversion or a rejection is exercised); "
        "distinct by (spec, route, value) digest")
ASSUMPTIONS = ["reference predicates are written from class docstrings / user manual; where the documentation is silent "
               "(str/bytes/tuple subclasses, numbers into String, adapt='default') only the domain predicate on the stored value is checked",
               "File/Directory(exists=True) are skipped (file-system dependent); bytes(n) for huge n is skipped (allocation hazard)"]

ROUTES = ["setattr", "trait_set", "trait_setq", "ctor"]
# a fifth route, run for the configurations whose domain does not depend on the owning class or on a shadow trait:
# the validated trait lives on a prototype object and the assignment goes through a PrototypedFrom attribute
# ("assigned locally (validated by the prototype's trait)")
PROTO = "proto"


def proto_ok(spec):
    return not any(L.mentions(spec, n) for n in ("Map", "MapMut", "PrefixMap", "This", "Legacy"))
OWNER = C3.OWNER


def build(spec):
    if spec[0] == "Legacy":
        return C3.LEGACY[spec[1]]()
    if spec[0] in ("Either", "Union", "Tuple", "List", "Set", "Dict"):
        subs = [build(s) for s in (spec[1] if spec[0] in ("Either", "Union", "Tuple") else
                                   [spec[1]] if spec[0] in ("List", "Set") else [spec[1], spec[2]])]
        if spec[0] == "Either":
            return T.Either(*subs)
        if spec[0] == "Union":
            return T.Union(*subs)
        if spec[0] == "Tuple":
            return T.Tuple(*subs)
        if spec[0] == "List":
            import sys
            return T.List(subs[0], minlen=spec[2], maxlen=spec[3] if spec[3] is not None else sys.maxsize)
        if spec[0] == "Set":
            return T.Set(subs[0])
        return T.Dict(subs[0], subs[1])
    return L.build(spec)


def plain(v):
    if isinstance(v, dict) and type(v) is not dict:
        return {k: plain(x) for k, x in v.items()}
    if isinstance(v, list) and type(v) is not list:
        return [plain(x) for x in v]
    if isinstance(v, set) and type(v) is not set:
        return set(v)
    if type(v) is list:
        return [plain(x) for x in v]
    if type(v) is tuple:
        return tuple(plain(x) for x in v)
    if type(v) is dict:
        return {k: plain(x) for k, x in v.items()}
    return v


def mapped(spec):
    return spec[0] in ("Map", "MapMut", "PrefixMap")


def protocol_exceptions(v, acc=None):
    """Exception classes the value's own conversion protocol is known to raise (besides OverflowError)."""
    acc = set() if acc is None else acc
    if isinstance(v, (L.Idx, L.Flt, L.Cpx)) and isinstance(v.v, Exception):
        acc.add(type(v.v))
    if type(v).__module__ == "numpy" and getattr(v, "size", 1) != 1:
        # an array's own truth-value protocol: `bool(array([1, 2]))` raises ValueError wherever a criterion (a bound
        # comparison, a membership test) is evaluated on it
        acc.add(ValueError)
    if isinstance(v, L.BadEq):
        # its own comparison protocol: `==` raises RuntimeError wherever a membership / equality criterion is evaluated on it
        # (the flat references say so themselves; a reference nested in a compound swallows it)
        acc.add(RuntimeError)
    if isinstance(v, (tuple, list, set, frozenset)):
        for x in v:
            protocol_exceptions(x, acc)
    if isinstance(v, dict):
        for a, b in v.items():
            protocol_exceptions(a, acc)
            protocol_exceptions(b, acc)
    return acc


class Driver:
    def __init__(self, spec, route):
        self.spec, self.route = spec, route
        if route == PROTO:
            pcls = type("Proto", (T.HasTraits,), {"x": build(spec)})
            self.cls = type("Owner", (T.HasTraits,), {"x": T.PrototypedFrom("p"), "p": T.Instance(pcls), "other": T.Int(5),
                                                      "tag": T.Str("t")})
            self.obj = self.cls(p=pcls())
        else:
            self.cls = type("Owner", (T.HasTraits,), {"x": build(spec), "other": T.Int(5), "tag": T.Str("t")})
            self.obj = self.cls()
        self.obj.other = 7
        self.obj.tag = "u"

    def snapshot(self):
        o = self.obj
        d = dict(o.__dict__)
        return d, o.other, o.tag, (getattr(o, "x_", None) if mapped(self.spec) else None)

    def assign(self, v):
        o = self.obj
        if self.route in ("setattr", PROTO):
            o.x = v
        elif self.route == "trait_set":
            o.trait_set(x=v)
        elif self.route == "trait_setq":
            o.trait_setq(x=v)
        else:
            # constructor keyword: a fresh object replaces the driven one if construction succeeds
            n = self.cls(x=v)
            n.other = 7
            n.tag = "u"
            self.obj = n


def judge_one(drv, enc, ctx):
    spec = drv.spec
    v0 = V.dec(enc)
    if L.hazardous(spec, v0):
        return None
    # the reference, first (it may raise what the value's protocol raises)
    owner = drv.cls
    try:
        r = L.ref(spec, C3.subst(v0, drv.obj), owner) if spec[0] != "Legacy" and not L.mentions(spec, "Legacy") else (L.UNSPEC,)
        rexc = None
    except RecursionError:
        raise
    except Exception as e:
        r, rexc = None, e
    if spec[0] == "Instance" and len(spec) > 3 and spec[3] == "default" and r is not None and r[0] == L.REJ:
        r = (L.UNSPEC,)          # adapt='default': a non-adaptable value stores the default instead
    v = C3.subst(v0, drv.obj)
    try:
        xb = drv.obj.x            # (reading first: the read itself may store the default)
        readable_before = True
    except Exception:
        xb, readable_before = None, False
    before = drv.snapshot()
    old_obj = drv.obj
    try:
        drv.assign(v)
        out = ("ok",)
    except TraitError as e:
        out = ("TE", e)
    except RecursionError:
        raise
    except Exception as e:
        out = ("EXC", e)
    sid = L.spec_id(spec)
    where = "spec=%s route=%s value=%r" % (sid, drv.route, v)
    ctx.label({"ok": "accepted", "TE": "rejected-TraitError", "EXC": "passthrough-exception"}[out[0]])
    if r is not None and r[0] == L.UNSPEC:
        ctx.label("reference-unspecified")

    if out[0] == "ok":
        x = drv.obj.x
        px = plain(x)
        dom = L.in_domain(spec, px, owner) if not L.mentions(spec, "Legacy") else None
        if dom is False:
            return ("domain/outside", "%s: stored %r (%s) lies outside the declared domain" % (where, x, type(x).__name__))
        if rexc is not None:
            pass        # protocol raised in the reference but some alternative/conversion accepted: domain check only
        elif r[0] == L.REJ:
            return ("reference/accepted-outside-domain", "%s: accepted (stored %r) but no documented conversion maps it into the domain"
                    % (where, x))
        elif r[0] == L.ACC:
            if not (L.eq(px, r[1]) or px is r[1]):
                return ("reference/stored-value", "%s: stored %r (%s), documented conversion is %r (%s)"
                        % (where, x, type(px).__name__, r[1], type(r[1]).__name__))
            if mapped(spec) and not (L.eq(drv.obj.x_, r[2]) or drv.obj.x_ is r[2]):
                return ("domain/shadow", "%s: shadow x_ = %r, mapped value is %r" % (where, drv.obj.x_, r[2]))
        elif r[0] == "acc-any":
            if not r[2] and not any(L.eq(px, a[1]) or px is a[1] for a in r[1]):
                return ("reference/stored-value", "%s: stored %r (%s), accepting alternatives store %r"
                        % (where, x, type(px).__name__, [a[1] for a in r[1]]))
        if mapped(spec) and r is not None and r[0] != L.ACC:
            # whatever was accepted, the shadow must be the mapped value of what is stored
            m = dict((V.dec(a), V.dec(b)) for a, b in spec[1])
            try:
                if not (drv.obj.x_ == m[drv.obj.x]):
                    return ("domain/shadow", "%s: shadow x_ = %r but map[%r] = %r" % (where, drv.obj.x_, drv.obj.x, m[drv.obj.x]))
            except (KeyError, TypeError):
                return ("domain/outside", "%s: stored %r is not a key of the map" % (where, drv.obj.x))
        if drv.route != "ctor" and (drv.obj.other != 7 or drv.obj.tag != "u"):
            return ("effects/other-attribute", "%s: other attributes changed" % where)
        return None

    # rejected or raised: nothing may have changed
    after = drv.snapshot()
    if drv.obj is not old_obj or after[0] != before[0] or after[1:] != before[1:]:
        return ("effects/changed-on-failure", "%s: raised %r but state changed %r -> %r" % (where, out[1], before, after))
    if readable_before:
        xa = drv.obj.x
        if xa is not xb and not L.eq(plain(xa), plain(xb)):
            return ("effects/changed-on-failure", "%s: raised %r but x reads %r, was %r" % (where, out[1], xa, xb))
    if out[0] == "TE":
        if "'x'" not in str(out[1]) and drv.route != "ctor" or ("x" not in str(out[1])):
            return ("rejection/message", "%s: TraitError does not name the attribute: %s" % (where, out[1]))
        if rexc is None and r[0] in (L.ACC, "acc-any") and not (r[0] == "acc-any" and r[2]):
            return ("reference/rejected-inside-domain", "%s: rejected, but the documented conversion %r is in the domain"
                    % (where, r[1] if r[0] == L.ACC else [a[1] for a in r[1]]))
        return None
    # some other exception
    e = out[1]
    allowed = protocol_exceptions(v0)
    if L.may_overflow(v0):
        allowed.add(OverflowError)
    if rexc is not None:
        allowed.add(type(rexc))
    if type(e) not in allowed:
        return ("rejection/foreign-exception", "%s: raised %r (only TraitError or the value's own conversion exception may surface)"
                % (where, e))
    return None


def nontrivial(spec, enc, drv):
    return True


def run_seq(spec, route, vals, ctx):
    drv = Driver(spec, route)
    sid = L.spec_id(spec)
    for i, enc in enumerate(vals):
        p = judge_one(drv, enc, ctx)
        if not (enc is None or type(enc) in (int, str, bool) and spec[0] in ("Int", "Str", "Bool")):
            ctx.nontrivial(key=[sid, route, enc], sample={"spec": spec, "route": route, "val": enc})
        if p is not None:
            return i, p[0], p[1]
    return None


def judge(spec, route, vals, ctx):
    ctx.add_evals(len(vals))
    r = run_seq(spec, route, vals, ctx)
    if r is None:
        return
    i, bucket, msg = r
    ctx2 = type(ctx)(ctx.stage)
    if run_seq(spec, route, [vals[i]], ctx2) is not None:
        case = {"spec": spec, "route": route, "vals": [vals[i]]}
    else:
        lo = 0
        for j in range(i - 1, -1, -1):
            if run_seq(spec, route, vals[j:i + 1], ctx2) is not None:
                lo = j
                break
        case = {"spec": spec, "route": route, "vals": vals[lo:i + 1]}
        bucket += "/history"
    ctx.report(bucket, msg, case)


# ----------------------------------------------------------------------------- stage grid
def full_grid():
    g = list(L.grid())
    g += [["Legacy", n] for n in C3.LEGACY]
    g += [["Either", [["Either", [["Legacy", "Instance('Foo')"], ["Range", 0, 3, False, True]]], ["Range", 0, 3, False, True]]],
          ["Either", [["PrefixList", ["yes", "no"]], ["Either", [["This", False], ["Legacy", "Instance('Foo')"]]]]],
          ["List", ["Callable", False], 0, None], ["List", ["Range", 0.0, 1.0, False, False], 0, None],
          ["Dict", ["Str"], ["Range", 0.0, 1.0, True, True]], ["Set", ["Range", 0, 3, False, False]],
          ["Tuple", [["List", ["Int"], 0, None], ["Int"]]], ["Union", [["List", ["Int"], 0, 2], ["Int"]]],
          ["List", ["Tuple", [["Int"], ["Str"]]], 0, None], ["List", ["Instance", "Foo", False, None], 0, None]]
    return [s for s in g if s != ["None"]]


def grid_gen(tier, shard, nshards):
    n = 0
    for spec in full_grid():
        for route in ROUTES + ([PROTO] if proto_ok(spec) else []):
            for order in ("fwd", "rev"):
                if n % nshards == shard:
                    yield {"spec": spec, "route": route, "order": order}
                n += 1


def grid_run(case, ctx):
    if "vals" in case:
        vals = case["vals"]
    else:
        vals = [e for e, _ in L.all_values()] + [{"x": "owner()"}]
        if case.get("order") == "rev":
            vals = vals[::-1]
    judge(case["spec"], case["route"], vals, ctx)


# ----------------------------------------------------------------------------- stage random
def spec_strategy():
    leaf = st.sampled_from([s for s in C3.LEAVES if s[0] != "Legacy"] + [["PrefixMap", [["yes", 1], ["no", 0]]],
                                                                          ["Range", 1.0, 3.0, True, False], ["BaseRange", 0, 3, True, True]])
    return st.recursive(
        leaf,
        lambda ch: st.one_of(
            st.lists(ch, min_size=2, max_size=4).map(lambda a: ["Either", a]),
            st.lists(ch, min_size=2, max_size=4).map(lambda a: ["Union", a]),
            st.lists(ch, min_size=1, max_size=3).map(lambda a: ["Tuple", [x if x != ["None"] else ["Int"] for x in a]]),
            ch.map(lambda a: ["List", a if a != ["None"] else ["Int"], 0, None]),
            ch.map(lambda a: ["List", a if a != ["None"] else ["Int"], 1, 2]),
            st.tuples(st.sampled_from([["Str"], ["Int"], ["Float"]]), ch).map(lambda t: ["Dict", t[0], t[1] if t[1] != ["None"] else ["Int"]]),
        ),
        max_leaves=6).filter(lambda sp: sp != ["None"])


def value_for(spec):
    k = spec[0]
    lat = st.sampled_from([e for e, _ in L.all_values()] + [{"x": "owner()"}])
    rnd = st.one_of(st.integers(-5, 5), st.integers(), st.floats(allow_nan=True, allow_infinity=True).map(V.enc),
                    st.text(max_size=4), st.booleans(), st.none())
    if k in ("Either", "Union"):
        return st.one_of([value_for(s) for s in spec[1]] + [lat])
    if k == "Tuple":
        return st.one_of(st.tuples(*[value_for(s) for s in spec[1]]).map(lambda t: {"t": list(t)}),
                         st.tuples(*[value_for(s) for s in spec[1]]).map(lambda t: {"t": list(t)[:-1]}), lat)
    if k == "List":
        return st.one_of(st.lists(value_for(spec[1]), max_size=3).map(lambda l: {"l": l}), lat)
    if k == "Dict":
        return st.one_of(st.lists(st.tuples(value_for(spec[1]).filter(hashable_enc), value_for(spec[2])).map(list), max_size=2)
                         .map(lambda l: {"d": l}), lat)
    if k == "PrefixMap":
        return st.sampled_from(["yes", "y", "no", "n", "", 1])
    return st.one_of(C3.value_for(spec, True), rnd)


def hashable_enc(e):
    try:
        hash(V.dec(e))
        return True
    except Exception:
        return False


@st.composite
def random_case(draw):
    spec = draw(spec_strategy())
    route = draw(st.sampled_from(ROUTES + ([PROTO] if proto_ok(spec) else [])))
    vals = draw(st.lists(value_for(spec), min_size=1, max_size=10))
    return {"spec": spec, "route": route, "vals": vals}


def random_run(case, ctx):
    ctx.evaluations -= 1
    ctx.add_evals(len(case["vals"]))
    r = run_seq(case["spec"], case["route"], case["vals"], ctx)
    if r is not None:
        ctx.fail(r[1], r[2])


# ----------------------------------------------------------------------------- stage fuzz (thorough): native libFuzzer
def fuzz_decode(data):
    import atheris
    fdp = atheris.FuzzedDataProvider(bytes(data))
    grid = full_grid()
    lat = [e for e, _ in L.all_values()] + [{"x": "owner()"}]
    spec = grid[fdp.ConsumeIntInRange(0, len(grid) - 1)]
    route = ROUTES[fdp.ConsumeIntInRange(0, len(ROUTES) - 1)]

    def value(depth=0):
        k = fdp.ConsumeIntInRange(0, 8)
        if k <= 2:
            return lat[fdp.ConsumeIntInRange(0, len(lat) - 1)]
        if k == 3:
            return V.enc(fdp.ConsumeFloat())
        if k == 4:
            return fdp.ConsumeInt(8)
        if k == 5:
            return fdp.ConsumeUnicodeNoSurrogates(4)
        if k == 6 and depth < 2:
            return {"t": [value(depth + 1) for _ in range(fdp.ConsumeIntInRange(0, 3))]}
        if k == 7 and depth < 2:
            return {"l": [value(depth + 1) for _ in range(fdp.ConsumeIntInRange(0, 3))]}
        return [None, True, False][fdp.ConsumeIntInRange(0, 2)]
    vals = [value() for _ in range(fdp.ConsumeIntInRange(1, 4))]
    return spec, route, vals


def fuzz_target(data, ctx):
    spec, route, vals = fuzz_decode(data)
    r = run_seq(spec, route, vals, ctx)
    if r is not None:
        import json
        ctx.fail(r[1], r[2] + " (decoded case: %s)" % json.dumps({"spec": spec, "route": route, "vals": vals}))


def fuzz_replay(case, ctx):
    if "bytes_hex" in case:
        fuzz_target(bytes.fromhex(case["bytes_hex"]), ctx)
    else:
        r = run_seq(case["spec"], case["route"], case["vals"], ctx)
        if r is not None:
            ctx.fail(r[1], r[2])


def stages(tier):
    extra = []
    if tier == "thorough":
        extra.append({"name": "fuzz", "kind": "fuzz", "flavour": "fuzz", "target": fuzz_target, "run": fuzz_replay, "shards": 8,
                      "max_len": 64, "runs": {"quick": 4000, "thorough": 400000},
                      "seeds": [bytes([3, 0, 0, 1, 0, 5]), bytes([40, 1, 1, 3]) + b"\x00" * 8, bytes([90, 2, 2, 6, 2, 0, 1, 0, 2])]})
    from vf.props import c01x
    extra += c01x.stages(tier)
    return extra + [
        {"name": "grid", "kind": "enum", "batch": True, "gen": grid_gen, "run": grid_run, "shards": 16, "exhaustive": True},
        {"name": "random", "kind": "hyp", "strategy": lambda tier: random_case(), "run": random_run,
         "examples": {"quick": 2500, "thorough": 250000}, "shards": 16},
    ]
