"""C10 — defaults are per-instance, computed once, silent; instances are isolated.

Hypothesis-drawn class specification (per attribute one of 14 default kinds, optional subclass
overriding some defaults) and a history over 2-5 instances (some created mid-history): read, mutate
own default container, assign, on_trait_change / observe on one instance, add_trait / remove_trait,
query trait definitions.  Oracle: per-instance model holding a private deep copy of the declared
default; after every step every OTHER instance, the class and a brand-new instance are compared
with their own model.
"""
import copy

from hypothesis import strategies as st

from traits.api import (HasTraits, Any, Int, Str, List, Dict, Set, Instance, Tuple, Union, Float)

ID = "C10"
LEVEL = "exploration"
RULE = ("Hypothesis cases: 1-5 attributes drawn from 14 default kinds (constant, Any list/dict copy, List/Dict/Set, "
        "Instance(C, ()), factory+args, _name_default method, Tuple(List,Int), Tuple(Str,Dict,Int), Union(List,Int), "
        "Dict(Str,List), List(List)), optional subclass overrides, history of <=20 ops over several instances (reads, default "
        "mutation, assignment, trait / item handlers identified by the instance they were registered on, add_trait of scalar "
        "and container traits); after every step the raw class tables and the definitions seen by every other instance are "
        "compared; non-trivial "
        "= a default container mutated on one instance before the same attribute is first read on another, an instance "
        "trait added, or a handler registered on one instance; distinct by digest.  Stage solo: histories of 2-24 ops over three "
        "instances of a class with dynamic Range / Enum / method-default attributes, played interleaved and per instance alone; "
        "non-trivial = at least two instances take part, or a first read fails after the default was computed")
ASSUMPTIONS = ["instances are identified by a serial number stored on them, never by id()",
               "fresh-per-call defaults (Instance with args) are compared by type and plain value"]


class Foo(HasTraits):
    z = Int


KINDS = ["const", "anylist", "anydict", "list", "dict", "set", "inst", "factory", "dyn", "tuplelist", "tuple3",
         "unionlist", "dictlist", "listlist", "anysublist", "anyodict", "dynenumdyn", "uniondef", "tupledef", "unionany", "unionanydict", "mapdyn", "listanynested", "constnone", "listnone", "dynnone", "sharedct"]


class Tags(list):
    """A list subclass: still 'a list copy' kind of default."""


def decl(kind):
    if kind == "const":
        return Int(7), 7
    if kind == "anylist":
        return Any([1, 2]), [1, 2]
    if kind == "anydict":
        return Any({"a": 1}), {"a": 1}
    if kind == "uniondef":
        # the default given to the Union itself, as a plain list
        return Union(List(Int), None, default_value=[1]), [1]
    if kind in ("constnone", "listnone", "dynnone"):
        # comparison_mode=none ("every assignment is a change") - which says nothing about READS of the default
        from traits.api import ComparisonMode
        if kind == "constnone":
            return Int(7, comparison_mode=ComparisonMode.none), 7
        if kind == "listnone":
            return List(Int, [1, 2], comparison_mode=ComparisonMode.none), [1, 2]
        return List(Int, comparison_mode=ComparisonMode.none), [9]
    if kind == "sharedct":
        # ONE CTrait object used for two attributes of the class: this one (plain, default 5) and a sibling that has a
        # `_<name>_default` method and a static handler - which belong to the sibling only
        return Int(5).as_ctrait(), 5
    if kind == "listanynested":
        # a container default that holds a MUTABLE item (the per-instance copy of the default is shallow)
        return List(Any, [[1]]), [[1]]
    if kind == "unionany":
        # the FIRST member of the Union has a "copy this list" default
        return Union(Any([1, 2]), Int), [1, 2]
    if kind == "unionanydict":
        return Union(Any({"a": 1}), None), {"a": 1}
    if kind == "mapdyn":
        # a mapped trait (it has a shadow attribute <name>_) whose default comes from a method
        from traits.api import Map
        return Map({"a": 1, "b": 2}), "a"
    if kind == "dynenumdyn":
        # a PROPERTY-style trait (its value lives in a cache slot) whose default comes from a method
        from traits.api import Enum
        return Enum(values="dyn_opts"), 2
    if kind == "anysublist":
        return Any(Tags([1, 2])), [1, 2]
    if kind == "anyodict":
        import collections
        return Any(collections.OrderedDict(a=1)), {"a": 1}
    if kind == "list":
        return List(Int, [1, 2]), [1, 2]
    if kind == "dict":
        return Dict(Str, Int, {"a": 1}), {"a": 1}
    if kind == "set":
        return Set(Int, {1}), {1}
    if kind == "inst":
        return Instance(Foo, ()), "foo:0"
    if kind == "factory":
        return Any(factory=list, args=([1, 2],)), [1, 2]
    if kind == "dyn":
        return List(Int), [9]
    if kind == "tuplelist":
        return Tuple(List(Int), Int), ([], 0)
    if kind == "tuple3":
        return Tuple(Str, Dict(Str, Int), Int), ("", {}, 0)
    if kind == "tupledef":
        # an EXPLICIT default tuple that holds a list
        return Tuple(([1], 0), List(Int), Int), ([1], 0)
    if kind == "unionlist":
        return Union(List(Int), Int), []
    if kind == "dictlist":
        return Dict(Str, List(Int), {"k": [1]}), {"k": [1]}
    if kind == "listlist":
        return List(List(Int), [[1], [2]]), [[1], [2]]
    raise AssertionError(kind)


ASSIGN = {"sharedct": 1, "constnone": 1, "listnone": [3], "dynnone": [3], "listanynested": [[3]], "unionany": [3], "unionanydict": {"b": 2}, "mapdyn": "b", "uniondef": [3], "dynenumdyn": 3, "anysublist": [3], "anyodict": {"b": 2}, "const": 1, "anylist": [3], "anydict": {"b": 2}, "list": [3], "dict": {"b": 2}, "set": {3}, "inst": None,
          "factory": [3], "dyn": [3], "tuplelist": ([3], 1), "tupledef": ([3], 1), "tuple3": ("s", {"q": 1}, 2), "unionlist": [3],
          "dictlist": {"q": [3]}, "listlist": [[3]]}


def _noop_handler():
    pass


def plain(v):
    if isinstance(v, Foo):
        return "foo:%d" % v.z
    if isinstance(v, list):
        return [plain(x) for x in v]
    if isinstance(v, tuple):
        return tuple(plain(x) for x in v)
    if isinstance(v, dict):
        return {k: plain(x) for k, x in v.items()}
    if isinstance(v, set):
        return set(v)
    return v


def containers(v, acc):
    """ids of every mutable container / Foo reachable in a value."""
    if isinstance(v, (list, dict, set, Foo)):
        acc.add(id(v))
    if isinstance(v, (list, tuple, set)):
        for x in v:
            containers(x, acc)
    elif isinstance(v, dict):
        for x in v.values():
            containers(x, acc)
    return acc


OP = st.one_of(
    st.tuples(st.just("read"), st.integers(0, 4), st.integers(0, 12)), st.tuples(st.just("read"), st.integers(0, 4), st.integers(0, 12)),
    st.tuples(st.just("mutate"), st.integers(0, 4), st.integers(0, 12)), st.tuples(st.just("mutate"), st.integers(0, 4), st.integers(0, 12)),
    st.tuples(st.just("assign"), st.integers(0, 4), st.integers(0, 12)),
    st.tuples(st.just("otc"), st.integers(0, 4), st.integers(0, 12)),
    st.tuples(st.just("observe"), st.integers(0, 4), st.integers(0, 12)),
    st.tuples(st.just("add_trait"), st.integers(0, 4), st.sampled_from(["extra", "override", "xl", "xl"]), st.integers(0, 12)),
    # a container trait ADDED to several instances under the same name, item handlers on one, mutation on another
    st.tuples(st.just("xl_otc"), st.integers(0, 4)), st.tuples(st.just("xl_mut"), st.integers(0, 4)),
    # item-level handlers on a declared container attribute (for Union members the items trait only appears on demand)
    st.tuples(st.just("otc_items"), st.integers(0, 4), st.integers(0, 12)),
    # names served by a WILDCARD trait (v_*): observed (optionally) on one instance before they were ever used, then used
    st.tuples(st.just("wobs"), st.integers(0, 4), st.sampled_from(["v_left", "v_right"])),
    st.tuples(st.just("wuse"), st.integers(0, 4), st.sampled_from(["v_left", "v_right"]), st.booleans()),
    st.tuples(st.just("wuse"), st.integers(0, 4), st.sampled_from(["v_left", "v_right"]), st.booleans()),
    st.tuples(st.just("remove_trait"), st.integers(0, 4)),
    st.tuples(st.just("query"), st.integers(0, 4)),
    st.tuples(st.just("new"), st.booleans()),
).map(list)


def strategy(tier):
    return st.fixed_dictionaries({
        "kinds": st.lists(st.sampled_from(KINDS + ["const", "const"]), min_size=1, max_size=5),
        "sub_over": st.lists(st.integers(0, 4), max_size=2),
        "ops": st.lists(OP, min_size=1, max_size=20),
    })


def run(case, ctx):
    kinds = case["kinds"]
    dyncalls = {}
    log = []
    ns = {}
    model_default = {}
    names = []
    serial = [0]
    for i, k in enumerate(kinds):
        nm = "t%d" % i
        names.append(nm)
        t, d = decl(k)
        ns[nm] = t
        model_default[nm] = d
        if k == "dynenumdyn":
            ns["dyn_opts"] = List([1, 2, 3])

            def mke(nm):
                def _d(self):
                    key = (self.__dict__.setdefault("_serial", -1 - len(dyncalls)), nm)
                    dyncalls[key] = dyncalls.get(key, 0) + 1
                    return 2
                return _d
            ns["_%s_default" % nm] = mke(nm)
        if k == "sharedct":
            sib = "sib_" + nm
            ns[sib] = t                      # the SAME CTrait object

            def mks(sib):
                def _d(self):
                    return 6
                return _d
            ns["_%s_default" % sib] = mks(sib)
            ns["_%s_changed" % sib] = lambda self, old, new: log.append((self.__dict__.get("_serial"), "sibling-handler"))
        if k == "mapdyn":
            def mkm(nm):
                def _d(self):
                    key = (self.__dict__.setdefault("_serial", -1 - len(dyncalls)), nm)
                    dyncalls[key] = dyncalls.get(key, 0) + 1
                    return "a"
                return _d
            ns["_%s_default" % nm] = mkm(nm)
            ns["_%s__changed" % nm] = lambda self, old, new: None          # a listener on the SHADOW attribute <name>_
        if k in ("dyn", "dynnone"):
            def mk(nm):
                def _d(self):
                    key = (self.__dict__.setdefault("_serial", -1 - len(dyncalls)), nm)
                    dyncalls[key] = dyncalls.get(key, 0) + 1
                    return [9]
                return _d
            ns["_%s_default" % nm] = mk(nm)

        def mkc(nm):
            def _c(self, old, new):
                log.append((self.__dict__.get("_serial"), nm))
            return _c
        ns["_%s_changed" % nm] = mkc(nm)

        def mki(nm):
            def _c(self, old, new):
                log.append((self.__dict__.get("_serial"), nm + "_items"))
            return _c
        ns["_%s_items_changed" % nm] = mki(nm)
    ns["v_"] = Float(1.5)            # every undeclared name v_<something> is a Float
    Base = type("Base", (HasTraits,), ns)
    subns = {}
    over_anylist = set()
    sub_default = dict(model_default)
    for i in case["sub_over"]:
        i = i % len(kinds)
        nm = names[i]
        if kinds[i] == "const":
            subns[nm] = 11
            sub_default[nm] = 11
        elif kinds[i] == "list":
            subns[nm] = [5]
            sub_default[nm] = [5]
        elif kinds[i] == "dict":
            subns[nm] = {"z": 0}
            sub_default[nm] = {"z": 0}
        elif kinds[i] == "anylist":
            subns[nm] = [5]              # a plain list in the subclass body over the base's Any([1, 2])
            sub_default[nm] = [5]
            over_anylist.add(nm)
    Sub = type("Sub", (Base,), subns)
    insts, models, keep = [], [], []

    def new(sub):
        cls = Sub if sub else Base
        o = cls()
        o.__dict__["_serial"] = serial[0]
        serial[0] += 1
        for n_, k_ in zip(names, kinds):
            if k_ == "mapdyn":
                o.on_trait_change(_noop_handler, n_ + "_")          # a listener on the shadow attribute, before any use
        insts.append(o)
        models.append({"cls": cls, "vals": {}, "read": set(), "extra": set()})
    new(False)
    new(True)

    # handlers record the instance they were REGISTERED on (not the object they are handed): a call that reaches a
    # handler registered elsewhere is a foreign call whatever object it reports
    def mk_otc(me):
        return lambda obj, n, old, new: log.append((me, "otc:" + n, obj.__dict__.get("_serial")))

    def mk_obs(me):
        return lambda e: log.append((me, "obs", e.object.__dict__.get("_serial")))

    def fsig(attr):
        """Known family F50b: a plain list in a subclass body over an inherited Any list default."""
        if attr in over_anylist:
            return "/subclass-list-over-any"
        if attr in names and kinds[names.index(attr)] == "listanynested":
            return "/nested-mutable-in-container-default"          # known family F67
        if attr in names and kinds[names.index(attr)] == "tupledef":
            return "/explicit-tuple-default"          # known family F61
        return ""

    def defaults_of(cls):
        return sub_default if cls is Sub else model_default

    def expected(j, nm):
        m = models[j]
        if nm in m["vals"]:
            return m["vals"][nm]
        return copy.deepcopy(defaults_of(m["cls"])[nm])

    def class_state(cls):
        out = {}
        for n, t in cls.class_traits().items():
            dv = t.default_value()
            # (the static handlers live on the CTraits of __class_traits__, not on the declared base traits)
            live = cls.__class_traits__.get(n)
            out[n] = (len(t._notifiers(False) or []), len(live._notifiers(False) or []) if live is not None else -1,
                      dv[0], repr(plain(dv[1]))[:80] if not callable(dv[1]) else "callable", type(t.handler).__name__)
        return out
    base_state = (class_state(Base), class_state(Sub))
    class_names = (sorted(Base.class_trait_names()), sorted(Sub.class_trait_names()))
    interesting = False

    probe_names = names + [n + "_items" for n in names] + ["xl", "xl_items"] + ["extra%d" % i for i in range(8)]

    def raw_defs(oo):
        """Trait definitions observable on an instance, events included (trait_names() filters events out)."""
        return (sorted(n for n in oo._instance_traits() if not n.startswith("v_")),
                tuple(n for n in probe_names if oo.trait(n) is not None))

    def raw_class():
        # (names resolved through the wildcard are cached in the class table on first use: not a declared definition)
        return tuple((sorted(n for n in c.__class_traits__ if not n.startswith("v_") or n == "v_"), sorted(c.__prefix_traits__))
                     for c in (Base, Sub))
    raw_base = raw_class()

    for op in case["ops"]:
        k = op[0]
        if k == "new":
            new(op[1])
            ctx.label("instance-created-mid-history")
            continue
        j = op[1] % len(insts)
        o, m = insts[j], models[j]
        del log[:]
        defs_before = [raw_defs(oo) if jj != j else None for jj, oo in enumerate(insts)]
        what = "op=%r on instance #%d (%s), kinds=%r" % (op, j, m["cls"].__name__, kinds)
        if k in ("wobs", "wuse"):
            from traits.observation.api import trait as _otrait
            wname = op[2]
            if k == "wobs":
                f = mk_obs(o.__dict__["_serial"])
                keep.append(f)
                o.observe(f, _otrait(wname, optional=True))
                ctx.label("wildcard-name-observed")
            else:
                if op[3]:
                    setattr(o, wname, getattr(o, wname) + 1.0)
                else:
                    if getattr(o, wname) != m["vals"].get(wname, 1.5):
                        ctx.fail("isolation/value", "%s reads %r, expected %r: %s" % (wname, getattr(o, wname), m["vals"].get(wname, 1.5), what))
                m["vals"][wname] = getattr(o, wname)
                ctx.label("wildcard-name-used")
            interesting = True
            nm = None
        elif k in ("xl_otc", "xl_mut"):
            if "xl" not in m["extra"]:
                continue
            if k == "xl_otc":
                f = mk_otc(o.__dict__["_serial"])
                keep.append(f)
                o.on_trait_change(f, "xl_items")
                ctx.label("handler-registered")
            else:
                o.xl.append(len(o.xl))
                m["vals"]["xl"] = plain(o.xl)
                ctx.label("added-container-mutated")
            interesting = True
            nm = None
        elif k == "add_trait":
            if op[2] == "xl":
                if "xl" in m["extra"]:
                    continue
                o.add_trait("xl", List(Int))
                m["extra"].add("xl")
                m["vals"]["xl"] = []
            elif op[2] == "extra":
                name = "extra%d" % j
                o.add_trait(name, Int(3))
                m["extra"].add(name)
            else:
                # (construction: the target is one of the constant-kind class traits, if there is one)
                consts = [i for i, kk in enumerate(kinds) if kk == "const"]
                if not consts:
                    continue
                ci = consts[op[3] % len(consts)]
                name = names[ci]
                if name in m["extra"]:
                    continue
                had = name in m["vals"] or name in m["read"]
                o.add_trait(name, Int(99))
                m["extra"].add(name)
                if not had:
                    m["vals"][name] = 99
                    m["override"] = name
            interesting = True
            ctx.label("add-trait")
            nm = None
        elif k == "remove_trait":
            name = "extra%d" % j
            if name in m["extra"]:
                o.remove_trait(name)
                m["extra"].discard(name)
            nm = None
        elif k == "query":
            o.traits()
            o.trait_names()
            got = o.trait_get()          # reads (and thereby materialises) every attribute
            o.copyable_trait_names()
            for n2 in names:
                if n2 == m.get("override"):
                    continue
                if n2 in got:
                    if plain(got[n2]) != plain(expected(j, n2)):
                        ctx.fail("default/value" + fsig(n2), "trait_get()[%s] = %r, expected %r: %s" % (n2, plain(got[n2]), plain(expected(j, n2)), what))
                    m["read"].add(n2)
                    m["vals"].setdefault(n2, plain(got[n2]))
            if log:
                ctx.fail("default/read-notified", "trait_get() reached handlers %r: %s" % (log, what))
            nm = None
            ctx.label("query")
        else:
            nm = names[op[2] % len(names)]
            kind = kinds[op[2] % len(names)]
            if nm == m.get("override"):
                continue
            if k == "read":
                first = nm not in m["read"] and nm not in m["vals"]
                v = getattr(o, nm)
                v2 = getattr(o, nm)
                if v is not v2:
                    ctx.fail("default/not-same-object", "two reads of %s (%s) return different objects: %s" % (nm, kind, what))
                if plain(v) != plain(expected(j, nm)):
                    ctx.fail("default/value" + fsig(nm), "%s (%s) reads %r, expected %r: %s" % (nm, kind, plain(v), plain(expected(j, nm)), what))
                if log:
                    ctx.fail("default/read-notified", "reading %s (%s) reached handlers %r: %s" % (nm, kind, log, what))
                m["read"].add(nm)
                if nm not in m["vals"]:
                    m["vals"][nm] = plain(v)
                if first:
                    ctx.label("first-read")
                    # was the same attribute's default mutated on another instance before?
                    if any(nm in mm.get("mutated", ()) for jj, mm in enumerate(models) if jj != j):
                        interesting = True
                        ctx.label("first-read-after-foreign-mutation")
            elif k == "mutate":
                v = getattr(o, nm)
                if nm not in m["vals"]:
                    m["vals"][nm] = plain(v)
                tgt = v
                if kind in ("tuplelist", "tupledef"):
                    tgt = v[0]
                if kind == "tuple3":
                    tgt = v[1]
                if kind == "dictlist":
                    tgt = v.get("k", None)
                if kind in ("listlist", "listanynested"):
                    tgt = v[0] if v else None
                if isinstance(tgt, list):
                    tgt.append(42)
                elif isinstance(tgt, dict):
                    tgt["zz"] = 42
                elif isinstance(tgt, set):
                    tgt.add(42)
                elif isinstance(tgt, Foo):
                    tgt.z = 42
                m["vals"][nm] = plain(getattr(o, nm))
                m.setdefault("mutated", set()).add(nm)
            elif k == "assign":
                val = ASSIGN[kind]
                if kind == "inst":
                    val = Foo(z=5)
                # (half of the assignments are made WITHOUT reading the attribute first: the trait then has to compute the
                #  default itself, as the old value of the change)
                unread = nm not in m["vals"] and op[2] % 2 == 1
                old_plain = plain(expected(j, nm)) if unread else plain(getattr(o, nm))
                if unread:
                    ctx.label("assigned-before-first-read")
                del log[:]
                setattr(o, nm, copy.deepcopy(val) if kind != "inst" else val)
                m["vals"][nm] = plain(getattr(o, nm))
                # the class's static handler still serves THIS instance, whatever was done to other instances
                if kind != "inst" and old_plain != m["vals"][nm] and (o.__dict__["_serial"], nm) not in log:
                    ctx.fail("isolation/static-handler-lost", "assigning %s (%s) on instance #%d did not reach the class's static "
                             "_%s_changed handler (log %r): %s" % (nm, kind, j, nm, log, what))
            elif k == "otc":
                f = mk_otc(o.__dict__["_serial"])
                keep.append(f)
                o.on_trait_change(f, nm)
                interesting = True
                ctx.label("handler-registered")
            elif k == "otc_items":
                if kind not in ("list", "dict", "set", "dyn", "unionlist", "dictlist", "listlist"):
                    continue
                if kind == "unionlist" and o.trait(nm + "_items") is None:
                    continue          # (the items trait of a Union member exists only after the first in-place mutation)
                f = mk_otc(o.__dict__["_serial"])
                keep.append(f)
                o.on_trait_change(f, nm + "_items")
                interesting = True
                ctx.label("items-handler-registered")
            elif k == "observe":
                f = mk_obs(o.__dict__["_serial"])
                keep.append(f)
                o.observe(f, nm)
                interesting = True
                ctx.label("handler-registered")
        # ---- isolation
        me = o.__dict__["_serial"]
        if any(x[0] != me or (len(x) > 2 and x[2] != me) for x in log):
            ctx.fail("isolation/foreign-handler", "handlers of another instance were called: %r: %s" % (log, what))
        seen = {}
        for jj, oo in enumerate(insts):
            if jj != j:
                for n2, v2 in models[jj]["vals"].items():
                    cur = oo.__dict__.get(n2, None) if n2 in oo.__dict__ else getattr(oo, n2)
                    if plain(cur) != v2:
                        ctx.fail("isolation/value" + fsig(n2), "instance #%d.%s changed to %r (model %r) by %s" % (jj, n2, plain(cur), v2, what))
                # (an instance's own use of a mapped attribute gives IT an instance copy of the shadow trait <name>_)
                shadows = {n_ + "_" for n_, k_ in zip(names, kinds) if k_ == "mapdyn"}
                extra_names = {n for n in oo.trait_names() if not n.startswith("v_") and n not in shadows} - \
                    set(class_names[1] if models[jj]["cls"] is Sub else class_names[0]) - models[jj]["extra"]
                if extra_names:
                    ctx.fail("isolation/trait-definitions", "instance #%d lists traits %r that were only added elsewhere: %s"
                             % (jj, sorted(extra_names), what))
            # no container shared between instances
            for n2 in names:
                if n2 in oo.__dict__:
                    for cid in containers(oo.__dict__[n2], set()):
                        if cid in seen and seen[cid] != jj:
                            ctx.fail("isolation/shared-container" + fsig(n2), "instances #%d and #%d share a container in %s: %s"
                                     % (seen[cid], jj, n2, what))
                        seen[cid] = jj
        for jj, oo in enumerate(insts):
            if jj != j and jj < len(defs_before) and raw_defs(oo) != defs_before[jj]:
                ctx.fail("isolation/trait-definitions", "trait definitions observable on instance #%d changed %r -> %r: %s"
                         % (jj, defs_before[jj], raw_defs(oo), what))
        if raw_class() != raw_base:
            ctx.fail("isolation/class-definitions", "class-level trait tables changed: %r -> %r: %s" % (raw_base, raw_class(), what))
        if (class_state(Base), class_state(Sub)) != base_state:
            now_state = (class_state(Base), class_state(Sub))
            changed_names = {n_ for a_, b_ in zip(base_state, now_state) for n_ in set(a_) | set(b_) if a_.get(n_) != b_.get(n_)}
            sigs = {fsig(n_) for n_ in changed_names}
            ctx.fail("isolation/class-definitions" + (sigs.pop() if len(sigs) == 1 else ""), "class-level trait definitions changed: %r -> %r: %s"
                     % (base_state, (class_state(Base), class_state(Sub)), what))
        if (sorted(Base.class_trait_names()), sorted(Sub.class_trait_names())) != class_names:
            ctx.fail("isolation/class-definitions", "class trait names changed: %s" % what)
        # a brand-new instance sees pristine defaults
        if nm is not None:
            fresh = (Sub if op[1] % 2 else Base)()
            fm = defaults_of(type(fresh))
            if plain(getattr(fresh, nm)) != plain(copy.deepcopy(fm[nm])):
                ctx.fail("isolation/fresh-default" + fsig(nm), "a new instance reads %s = %r, declared default %r: %s"
                         % (nm, plain(getattr(fresh, nm)), fm[nm], what))
            for cid in containers(fresh.__dict__.get(nm), set()):
                if cid in seen:
                    ctx.fail("isolation/shared-container" + fsig(nm), "a new instance shares a container of %s with instance #%d: %s"
                             % (nm, seen[cid], what))
            del fresh
    for key, c in dyncalls.items():
        if c > 1:
            ctx.fail("default/method-ran-twice", "_%s_default ran %d times on instance serial %d" % (key[1], c, key[0]))
    if interesting:
        ctx.nontrivial()


# ----------------------------------------------------------------------------- stage solo
# Metamorphic: what ONE instance observes (values, their types, exceptions, handler calls, default computations) in a history
# interleaved with operations on other instances of the class equals what it observes when the very same operations are
# applied to it alone (fresh class object both times).  The attributes are the DYNAMIC kinds: Range / Enum whose bounds and
# values are other attributes of the instance (of either numeric type), method defaults, an Instance default whose first
# read can fail late (a `kid:value` observer on a default object without `value`).
SOLO_READ = ["level", "lowonly", "pick", "kid", "items", "ratio"]
BOUNDS = [0, 1, 0.5, 10, 10.0, 20.5, 4, 4.0]
SOLO_OP = st.one_of(
    st.tuples(st.just("bound"), st.integers(0, 2), st.sampled_from(["lo", "hi"]), st.sampled_from(BOUNDS)),
    st.tuples(st.just("read"), st.integers(0, 2), st.sampled_from(SOLO_READ)),
    st.tuples(st.just("read"), st.integers(0, 2), st.sampled_from(SOLO_READ)),
    st.tuples(st.just("assign"), st.integers(0, 2), st.sampled_from(["level", "lowonly", "ratio"]), st.sampled_from([1, 2.5, 7.25, 7, 3.0, 100])),
    st.tuples(st.just("assign"), st.integers(0, 2), st.just("pick"), st.sampled_from([1, 2, 5, 2.0])),
    st.tuples(st.just("assign"), st.integers(0, 2), st.just("opts"), st.sampled_from([[1, 2, 3], [5, 2], [2.0, 1]])),
    st.tuples(st.just("assign"), st.integers(0, 2), st.just("items"), st.sampled_from([[4], []])),
    st.tuples(st.just("del"), st.integers(0, 2), st.sampled_from(["level", "lowonly", "pick", "kid", "items", "ratio"])),
    st.tuples(st.just("bare"), st.integers(0, 2), st.booleans()),
    st.tuples(st.just("observe_kid"), st.integers(0, 2)),
    # the default object will lack `value` AND a `kid:value` observer is in place: the first read fails after the default exists
    st.tuples(st.just("kid_trap"), st.integers(0, 2)), st.tuples(st.just("read"), st.integers(0, 2), st.just("kid")),
    st.tuples(st.just("kid_value"), st.integers(0, 2), st.integers(0, 3)),
    st.tuples(st.just("items_append"), st.integers(0, 2), st.integers(0, 3)),
)


def solo_strategy(tier):
    return st.fixed_dictionaries({"ops": st.lists(SOLO_OP, min_size=2, max_size=24)})


def _solo_cls(calls):
    from traits.api import Range, Enum, Bool

    class Bare(HasTraits):
        other = Int

    class Kid(HasTraits):
        value = Int

    class D(HasTraits):
        lo = Any(0)
        hi = Any(10)
        level = Range("lo", "hi", 2.5)            # both bounds by name: the value's type follows THIS object's bounds
        lowonly = Range(low="lo", value=3)
        ratio = Range(0.0, "hi", 1.0)
        opts = List([1, 2, 3])
        pick = Enum(values="opts")
        kid = Instance(HasTraits)
        items = List(Int)
        bare = Bool(False)

        def _kid_default(self):
            k = (self.__dict__["_serial"], "kid")
            calls[k] = calls.get(k, 0) + 1
            return Bare() if self.bare else Kid()

        def _items_default(self):
            k = (self.__dict__["_serial"], "items")
            calls[k] = calls.get(k, 0) + 1
            return [self.__dict__["_serial"]]
    return D


def _solo_play(ops, only, ctx=None):
    """Apply `ops` (those of instance `only` if not None) to instances of a fresh class; returns per-instance logs."""
    calls = {}
    D = _solo_cls(calls)
    insts = []
    for j in range(3):
        o = D()
        o.__dict__["_serial"] = j
        insts.append(o)
    logs = {j: [] for j in range(3)}
    stored = {}
    lastobj = {}

    def view(v):
        if isinstance(v, HasTraits):
            return type(v).__name__
        if isinstance(v, list):
            return ["%s:%r" % (type(x).__name__, x) for x in v]
        return "%s:%r" % (type(v).__name__, v)
    for idx, op in enumerate(ops):
        k, j = op[0], op[1]
        if only is not None and j != only:
            continue
        o, lg = insts[j], logs[j]
        before = dict(calls)
        if k == "del":
            # (the deletion announces old value -> default: the new default may be computed within this very step)
            stored[(j, op[2])] = False
        try:
            if k == "bound":
                setattr(o, op[2], op[3])
                r = "ok"
            elif k == "read":
                v = getattr(o, op[2])
                if op[2] in ("kid", "items"):
                    prev = lastobj.get((j, op[2]))
                    if ctx is not None and prev is not None and prev is not v:
                        ctx.fail("default/different-object-on-reread", "two reads of %s on instance #%d without an assignment or deletion "
                                 "in between gave two objects (step %d of %r)" % (op[2], j, idx, ops))
                    lastobj[(j, op[2])] = v
                r = view(v)
            elif k == "assign":
                setattr(o, op[2], list(op[3]) if isinstance(op[3], list) else op[3])
                lastobj.pop((j, op[2]), None)
                stored[(j, op[2])] = True
                r = "ok"
            elif k == "del":
                delattr(o, op[2])
                lastobj.pop((j, op[2]), None)
                stored[(j, op[2])] = False
                r = "ok"
            elif k == "bare":
                o.bare = op[2]
                r = "ok"
            elif k == "observe_kid":
                o.observe(lambda e, lg=lg: lg.append(("kid-value-event", e.new)), "kid:value")
                r = "ok"
            elif k == "kid_trap":
                o.bare = True
                o.observe(lambda e, lg=lg: lg.append(("kid-value-event", e.new)), "kid:value")
                r = "ok"
            elif k == "kid_value":
                kid = o.__dict__.get("kid")
                if kid is not None and "value" in kid.trait_names():
                    kid.value = op[2]
                r = "ok"
            else:
                it = o.__dict__.get("items")
                if it is not None:
                    it.append(op[2])
                r = "ok"
        except Exception as e:
            r = "raises " + type(e).__name__
        lg.append((idx, k, r))
        for key, c in calls.items():
            d = c - before.get(key, 0)
            if not d:
                continue
            if ctx is not None and (d > 1 or stored.get(key)):
                ctx.fail("default/method-ran-twice", "_%s_default ran %s on instance #%d in step %d %r (outcome %r) although the default "
                         "had been computed (or a value assigned) and not deleted since; ops=%r"
                         % (key[1], "%d times" % d if d > 1 else "again", key[0], idx, op, r, ops))
            if ctx is not None and isinstance(r, str) and r.startswith("raises"):
                ctx.label("first-read-failed-after-the-default-was-computed")
                ctx.nontrivial()
            stored[key] = True
    return logs


def solo_run(case, ctx):
    ops = [tuple(o) for o in case["ops"]]
    together = _solo_play(ops, None, ctx)
    touched = sorted({o[1] for o in ops})
    if len(touched) > 1:
        ctx.nontrivial()
        ctx.label("interleaved-instances:%d" % len(touched))
    types = {type(o[3]).__name__ for o in ops if o[0] == "bound"}
    if len(types) > 1:
        ctx.label("int-and-float-bounds")
    for j in touched:
        alone = _solo_play(ops, j)[j]
        if alone != together[j]:
            diff = next((a, b) for a, b in zip(alone + [None], together[j] + [None]) if a != b)
            ctx.fail("isolation/solo-differs", "instance #%d observes %r when the history is applied to it alone but %r when it is "
                     "interleaved with operations on other instances; ops=%r" % (j, diff[0], diff[1], ops))


def stages(tier):
    return [{"name": "hist", "kind": "hyp", "strategy": strategy, "run": run,
             "examples": {"quick": 24000, "thorough": 300000}, "shards": 16},
            {"name": "solo", "kind": "hyp", "strategy": solo_strategy, "run": solo_run,
             "examples": {"quick": 8000, "thorough": 120000}, "shards": 16}]
