"""C13 — every attribute name is governed by the right trait and its access policy.

Generated class hierarchies over HasTraits / HasStrictTraits / HasPrivateTraits (1-3 levels, optional
mixin as a second base) declaring explicit and wildcard traits of 8 distinguishable kinds; histories
of get / set(int) / set(str) / del per name and add_trait / remove_trait.  Oracle: an independent
resolver (instance trait -> class trait own/inherited -> longest matching prefix -> class default)
plus a per-kind policy automaton; compared: outcome class (value / AttributeError / TraitError)
and the value.
"""
from hypothesis import strategies as st

from traits.api import (HasTraits, HasStrictTraits, HasPrivateTraits, Int, Str, ReadOnly, Constant, Event, Disallow,
                        Python, Any, TraitError, List)
from traits.trait_base import Undefined

ID = "C13"
LEVEL = "exploration"
RULE = ("Hypothesis cases: base class x 1-3 levels (each <=3 explicit names and <=3 wildcard prefixes of 8 kinds) x optional "
        "mixin base, history of <=25 ops over 40 names built from 7 prefixes x 6 suffixes; non-trivial = a name matching >=2 "
        "prefixes is used, or a name is shadowed/unshadowed by an instance trait, or a mixin contributes the governing trait; "
        "distinct by digest")
ASSUMPTIONS = ["dunder names and classes created after the first resolution are outside the stated domain",
               "a stored value stays readable when the governing trait of its name is later replaced by add_trait; add_trait of a "
               "non-value kind (Constant/Event/Disallow) over a name that already holds a value is not generated",
               "where two bases declare the same name or prefix the first base wins (Python MRO)"]

KINDS = ["Int", "Str", "ReadOnly", "Constant", "Event", "Disallow", "Python", "Any", "ReadOnly5"]


def mk(kind):
    if kind.endswith("=7"):
        return 7                      # a plain value in the class body
    return {"Int": lambda: Int(), "Str": lambda: Str(), "ReadOnly": lambda: ReadOnly, "Constant": lambda: Constant(5),
            "Event": lambda: Event(), "Disallow": lambda: Disallow, "Python": lambda: Python(), "Any": lambda: Any(),
            "ReadOnly5": lambda: ReadOnly(5)}[kind]()


# ("__" and "__a__" give names such as __b, ___z, __a__b, __a___z: two leading underscores but NOT of the __dunder__ form)
PREFIXES = ["", "a", "ab", "abc", "_", "x", "xy", "__", "__a__"]
SUFFIXES = ["", "1", "b", "bc", "q", "_z"]
NAMES = sorted({p + s for p in PREFIXES for s in SUFFIXES if (p + s) and not (p + s).endswith("_") and (p + s).isidentifier()})
BASES = {"H": HasTraits, "S": HasStrictTraits, "P": HasPrivateTraits}

# "=7": the level re-declares an INHERITED name by a plain value (`x = 7` in the class body): the inherited trait with a new
# default (only generated where the trait inherited from the first base that has one is Int or Any; dropped otherwise)
LEVEL_ST = st.tuples(st.dictionaries(st.sampled_from(NAMES), st.sampled_from(KINDS + ["=7", "=7"]), max_size=3),
                     st.dictionaries(st.sampled_from(PREFIXES), st.sampled_from(KINDS), max_size=3)).map(list)
# undeclared names that are a (possibly declared) name plus ONE trailing underscore: governed by the wildcards / the class
# default like any other undeclared name (whatever kind of trait the stem is)
USCORE = [n + "_" for n in NAMES]
OP = st.one_of(
    st.tuples(st.just("get"), st.sampled_from(USCORE)), st.tuples(st.just("seti"), st.sampled_from(USCORE)),
    st.tuples(st.just("sets"), st.sampled_from(USCORE)),
    st.tuples(st.just("get"), st.sampled_from(NAMES)), st.tuples(st.just("get"), st.sampled_from(NAMES)),
    st.tuples(st.just("seti"), st.sampled_from(NAMES)), st.tuples(st.just("sets"), st.sampled_from(NAMES)),
    st.tuples(st.just("del"), st.sampled_from(NAMES)),
    st.tuples(st.just("add"), st.sampled_from(NAMES), st.sampled_from(KINDS)),
    st.tuples(st.just("rem"), st.sampled_from(NAMES)),
    # a container trait added to the instance brings a companion `<name>_items` event trait, which remove_trait takes away
    # again; `*_items` ops address the companion name of the most recently touched name
    st.tuples(st.just("addlist"), st.sampled_from(NAMES)), st.tuples(st.just("addlist"), st.sampled_from(NAMES)),
    st.tuples(st.just("get_items@"), st.integers(0, 3)), st.tuples(st.just("seti_items@"), st.integers(0, 3)),
    st.tuples(st.just("del_items@"), st.integers(0, 3)), st.tuples(st.just("get_items@"), st.integers(0, 3)),
    st.tuples(st.just("seti_items@"), st.integers(0, 3)),
    # ops addressed to the i-th name that currently has (or most recently had) an instance trait (construction)
    st.tuples(st.just("rem@"), st.integers(0, 3)), st.tuples(st.just("rem@"), st.integers(0, 3)),
    st.tuples(st.just("get@"), st.integers(0, 3)), st.tuples(st.just("get@"), st.integers(0, 3)),
    st.tuples(st.just("seti@"), st.integers(0, 3)), st.tuples(st.just("del@"), st.integers(0, 3)),
    # ops addressed to the i-th name of the "declare on first use" set (ignored when the case has none)
    st.tuples(st.just("get%"), st.integers(0, 5)), st.tuples(st.just("seti%"), st.integers(0, 5)),
    st.tuples(st.just("sets%"), st.integers(0, 5)), st.tuples(st.just("del%"), st.integers(0, 5)),
    st.tuples(st.just("rem%"), st.integers(0, 5)),
    # register a (do-nothing) change handler on a name: the object gets its own copy of the governing trait for that name
    # (same policy); for a name never resolved before this is ALSO its first resolution
    st.tuples(st.just("listen"), st.sampled_from(NAMES)), st.tuples(st.just("listen%"), st.integers(0, 5)),
    # shadow/unshadow cycle on one name: add an instance trait, use it, remove it, use the name again
    st.tuples(st.just("cycle"), st.sampled_from(NAMES), st.sampled_from(KINDS),
              st.lists(st.sampled_from(["get", "seti", "sets", "del"]), max_size=2),
              st.lists(st.sampled_from(["get", "seti", "sets", "del"]), min_size=1, max_size=2)),
    st.tuples(st.just("cycle"), st.sampled_from(NAMES), st.sampled_from(KINDS),
              st.lists(st.sampled_from(["get", "seti", "sets", "del"]), max_size=2),
              st.lists(st.sampled_from(["get", "seti", "sets", "del"]), min_size=1, max_size=2)),
).map(list)


def strategy(tier):
    return st.fixed_dictionaries({
        "base": st.sampled_from(["H", "S", "P"]),
        "levels": st.lists(LEVEL_ST, min_size=1, max_size=3),
        "mixin": st.one_of(st.none(), st.none(), LEVEL_ST),
        "leaf_body": st.booleans(),
        "ops": st.lists(OP, min_size=1, max_size=25),
        # "declare on first use": a trait_added listener of the object adds an INSTANCE trait for these names the moment
        # the class resolves them for the first time (through a wildcard or the class default); that instance trait must
        # govern the very access that triggered the resolution
        # declarations made with add_class_trait AFTER the whole family exists (before any instance is touched):
        # [level index, explicit name or wildcard prefix, is-wildcard, kind]; same meaning as a declaration in the class body
        # construction: the most derived level re-declares, by a plain value, the i-th Int/Any name it inherits; with `clash`
        # the mixin (a LATER base) declares the same name as a Str
        "redecl": st.one_of(st.none(), st.integers(0, 5)), "clash": st.booleans(),
        "diamond": st.sampled_from([False, False, True]),
        "late": st.lists(st.tuples(st.integers(0, 2), st.sampled_from(PREFIXES[1:] + NAMES[:12]), st.booleans(), st.sampled_from(KINDS)).map(list),
                         max_size=2),
        # the listener declares ALL names of the `declare` set (not only the one being resolved) at the first resolution of any
        # of them (kinds are then restricted to Int / Str / Any)
        "declare_all": st.booleans(),
        # an ANCESTOR class is used (instance created, these names read) before its subclasses exist: what a class resolved
        # through a wildcard / its default must not become a declaration for classes created later
        "early_use": st.one_of(st.just([]), st.just([]), st.lists(st.sampled_from(NAMES), min_size=1, max_size=3)),
        "early_at": st.integers(0, 1),
        "declare": st.one_of(st.just({}), st.just({}), st.dictionaries(st.sampled_from(NAMES), st.sampled_from(KINDS), min_size=1, max_size=6)),
    })


class Resolver:
    """Independent resolution: instance trait, class trait (MRO), longest prefix (MRO on ties), class default."""

    def __init__(self, base, levels, mixin):
        # MRO from most derived to least: levels reversed, then mixin (second base of the leaf)
        self.mro = list(reversed(levels)) + ([mixin] if mixin else [])
        self.base = base
        self.mixin = mixin

    def resolve(self, inst, name):
        if name in inst:
            return inst[name], "inst"
        for i, (ex, wc) in enumerate(self.mro):
            if name in ex:
                return ex[name], ("mixin" if self.mixin is not None and i == len(self.mro) - 1 else "class")
        # wildcards, least specific layer first (later layers override): mixin (second base), the library base class's
        # own defaults, then the chain from root to leaf
        merged = {}
        by = {}
        if self.mixin:
            for p, k in self.mixin[1].items():
                merged[p] = k
                by[p] = "mixin"
        if self.base == "H":
            merged[""] = "Python"       # HasTraits' own class default: undeclared names are plain Python attributes
            by[""] = "base-default"
        if self.base == "S":
            merged[""] = "Disallow"
            by[""] = "base"
        if self.base == "P":
            merged[""] = "Disallow"
            merged["_"] = "AnyPriv"
            by[""] = by["_"] = "base"
        chain = self.mro[:len(self.mro) - (1 if self.mixin else 0)]
        for ex, wc in reversed(chain):
            for p, k in wc.items():
                merged[p] = k
                by[p] = "chain"
        cands = [p for p in merged if name.startswith(p)]
        if cands:
            best = max(cands, key=len)
            real = [p for p in cands if by[p] != "base-default"]
            src = "prefix-multi" if len(real) > 1 else "prefix"
            if by[best] == "mixin":
                src = "mixin"
            if by[best] == "base-default":
                src = "default"
            return merged[best], src
        return "Python", "default"


class Model:
    def __init__(self):
        self.store = {}

    def default(self, kind):
        if kind.endswith("=7"):
            return 7
        return {"Int": 0, "Str": "", "Any": None, "AnyPriv": None, "Constant": 5, "ReadOnly": Undefined, "ReadOnly5": 5,
                "ListInt": []}.get(kind)

    def get(self, kind, name):
        if kind.endswith("=7"):
            if name in self.store:
                return ("ok", self.store[name])
            self.store[name] = 7
            return ("ok", 7)
        if kind in ("Event", "Disallow", "ItemsEvent"):
            return ("AttributeError",)
        if kind == "Constant":
            return ("ok", 5)
        if kind == "Python":
            return ("ok", self.store[name]) if name in self.store else ("AttributeError",)
        if name in self.store:
            return ("ok", self.store[name])
        self.store[name] = self.default(kind)
        return ("ok", self.default(kind))

    def set(self, kind, name, v):
        kind = kind.split("=")[0]
        if kind in ("Disallow", "Constant"):
            return ("TraitError",)
        if kind == "ReadOnly5":
            return ("TraitError",)        # a ReadOnly that has a default value is already defined: no write is accepted
        if kind == "Event":
            return ("ok", None)
        if kind == "ItemsEvent":
            return ("TraitError",)        # a typed event: only a TraitListEvent may be fired
        if kind == "Int" and not isinstance(v, int):
            return ("TraitError",)
        if kind == "ListInt":
            return ("TraitError",)        # neither 3 nor "s" is a list
        if kind == "Str" and not isinstance(v, str):
            return ("TraitError",)
        if kind == "ReadOnly":
            if name in self.store and self.store[name] is not Undefined:
                return ("TraitError",)
        self.store[name] = v
        return ("ok", None)

    def delete(self, kind, name):
        kind = kind.split("=")[0]
        if kind in ("Disallow", "Constant", "ReadOnly", "ReadOnly5"):
            return ("TraitError",)
        if kind in ("Event", "ItemsEvent"):
            return ("ok", None)
        if kind == "Python":
            if name in self.store:
                del self.store[name]
                return ("ok", None)
            return ("AttributeError",)
        self.store.pop(name, None)
        return ("ok", None)


def _noop():
    pass


def outcome(f):
    try:
        return ("ok", f())
    except TraitError:
        return ("TraitError",)
    except AttributeError:
        return ("AttributeError",)


def run(case, ctx):
    base = case["base"]
    levels = [[dict(ex), dict(wc)] for ex, wc in case["levels"]]
    mixin = [dict(case["mixin"][0]), dict(case["mixin"][1])] if case["mixin"] else None
    if mixin:
        mixin[0] = {n: k for n, k in mixin[0].items() if k != "=7"}
    if case.get("redecl") is not None and len(levels) > 1:
        cands = sorted({n for ex2, _ in levels[:-1] for n, k2 in ex2.items() if k2 in ("Int", "Any")})
        if cands:
            rn = cands[case["redecl"] % len(cands)]
            levels[-1][0][rn] = "=7"
            if mixin and case.get("clash") and case["leaf_body"]:
                mixin[0][rn] = "Str"
                ctx.label("redeclared-name-clashes-in-a-later-base")
    # plain-value redeclarations: resolved against what that class inherits (first base that has the name wins)
    for i, (ex, wc) in enumerate(levels):
        for name in [n for n, k in ex.items() if k == "=7"]:
            inherited = None
            for ex2, _ in reversed(levels[:i]):
                if name in ex2:
                    inherited = ex2[name]
                    break
            if inherited is None and mixin and i == len(levels) - 1 and case["leaf_body"] and name in mixin[0]:
                inherited = mixin[0][name]
            if inherited is not None and inherited.split("=")[0] in ("Int", "Any"):
                ex[name] = inherited.split("=")[0] + "=7"
                ctx.label("plain-value-redeclaration")
            else:
                del ex[name]
    late = []
    declared_names = set().union(*[set(ex) for ex, _ in levels + ([mixin] if mixin else [])])
    declared_prefixes = set().union(*[set(wc) for _, wc in levels + ([mixin] if mixin else [])])
    for li, key, is_wc, kind in case.get("late") or []:
        li = li % len(levels)
        if is_wc and key in PREFIXES and key not in declared_prefixes and not (base == "P" and key == "_"):
            late.append((li, key, True, kind))
            declared_prefixes.add(key)
        elif not is_wc and key in NAMES and key not in declared_names:
            late.append((li, key, False, kind))
            declared_names.add(key)
    cls = BASES[base]
    built = []
    early = []
    leaky = set()
    early_at = None
    if case.get("early_use") and not mixin and len(levels) >= 2 and not late and not case.get("diamond") and base != "P":
        early_at = case.get("early_at", 0) % (len(levels) - 1)
        full, part = Resolver(base, levels, None), Resolver(base, levels[:early_at + 1], None)
        for nm in dict.fromkeys(case["early_use"]):
            if any(nm in ex2 for ex2, _ in levels):
                continue                 # declared by name somewhere in the family: not resolved through a wildcard
            if full.resolve({}, nm)[0] != part.resolve({}, nm)[0]:
                # a class created AFTER the ancestor resolved the name declares a wildcard that should govern it: the
                # ancestor's cached resolution is inherited like a declaration and wins (known finding F76)
                if "policy/resolved-before-subclass-creation" in ctx.active_known:
                    ctx.exclude("name resolved by an ancestor class before the subclass that re-governs it was created (F76)")
                    continue
                leaky.add(nm)
            early.append(nm)
    for li, (ex, wc) in enumerate(levels[:-1] if mixin else levels):
        ns = {n: mk(k) for n, k in ex.items()}
        ns.update({p + "_": mk(k) for p, k in wc.items()})
        cls = type("G%d" % li, (cls,), ns)
        built.append(cls)
        if early and li == early_at:
            tmp_ = cls()
            for nm in early:
                try:
                    getattr(tmp_, nm)
                except Exception:
                    pass
            del tmp_
            ctx.label("ancestor-used-before-its-subclasses-exist")
    if mixin:
        mns = {n: mk(k) for n, k in mixin[0].items()}
        mns.update({p + "_": mk(k) for p, k in mixin[1].items()})
        Mixin = type("Mixin", (HasTraits,), mns)
        ex, wc = levels[-1]
        if not case["leaf_body"]:
            # the leaf declares nothing itself: everything comes from its two bases
            parent_ns = {n: mk(k) for n, k in ex.items()}
            parent_ns.update({p + "_": mk(k) for p, k in wc.items()})
            parent = type("G%d" % (len(levels) - 1), (cls,), parent_ns)
            built.append(parent)
            cls = type("Leaf", (parent, Mixin), {})
        else:
            if cls in BASES.values():
                cls = type("Root", (cls,), {})       # (HasTraits, Mixin) itself has no consistent MRO
            ns = {n: mk(k) for n, k in ex.items()}
            ns.update({p + "_": mk(k) for p, k in wc.items()})
            cls = type("Leaf", (cls, Mixin), ns)
            built.append(cls)
        ctx.label("mixin")
    if case.get("diamond") and not mixin:
        # the object's class sits BESIDE a diamond: Left, Right, Both(Left, Right), Late(Right) - nothing declared in any of
        # them; whatever is (late-)declared higher up must reach Late like every other subclass
        Left, Right = type("Left", (cls,), {}), type("Right", (cls,), {})
        type("Both", (Left, Right), {})
        cls = type("Late", (Right,), {})
        ctx.label("sibling-of-a-diamond")
    res = Resolver(base, levels, mixin)
    declare = dict(case.get("declare") or {})
    declare_all = bool(case.get("declare_all")) and bool(declare)
    if declare_all:
        declare = {n_: (k_ if k_ in ("Int", "Str", "Any") else "Int") for n_, k_ in declare.items()}
        ctx.label("declare-all-on-first-use")
    if declare:
        def _trait_added_changed(self, name):
            if name in declare:
                for n_ in (sorted(declare) if declare_all else [name]):
                    if n_ not in self._instance_traits():
                        self.add_trait(n_, mk(declare[n_]))
        cls = type("Declaring", (cls,), {"_trait_added_changed": _trait_added_changed})
        ctx.label("declare-on-first-use")
    # late declarations: the whole family exists already (subclasses included), no instance has been touched yet
    for li, key, is_wc, kind in late:
        built[li].add_class_trait(key + "_" if is_wc else key, mk(kind))
        levels[li][1 if is_wc else 0][key] = kind
        ctx.label("late-class-declaration" + ("-wildcard" if is_wc else ""))
    explicit = set()
    for ex, wc in levels + ([mixin] if mixin else []):
        explicit.update(ex)
    cloned = set()           # names for which the object got its own copy of the governing trait (a handler was registered)
    cached = set(early)      # names the class has already resolved through a wildcard / its default (it caches the result;
                             # a resolution cached by an ancestor before this class was created is inherited with it)
    o = cls()
    inst = {}
    m = Model()
    interesting = False
    touched = []          # names that have or had an instance trait, most recent last
    flat = []
    for op in case["ops"]:
        if op[0] == "cycle":
            flat.append(["add", op[1], op[2]])
            flat.extend([x, op[1]] for x in op[3])
            flat.append(["rem", op[1]])
            flat.extend([x, op[1]] for x in op[4])
        else:
            flat.append(op)
    def declared_by_listener(fires, name):
        """add_trait for a NEW name fires trait_added too: a declare-all listener then declares the other names."""
        if fires and declare_all and name in declare:
            for n_ in sorted(declare):
                if n_ not in inst and n_ not in cloned:
                    inst[n_] = declare[n_]
                    if n_ not in touched:
                        touched.append(n_)

    for op in flat:
        k, name = op[0], op[1]
        if k.endswith("%"):
            if not declare:
                continue
            k, name = k[:-1], sorted(declare)[op[1] % len(declare)]
        if k == "listen" and (name in inst or name + "_items" in inst or name.endswith("_items")):
            continue
        if k.endswith("@"):
            if not touched:
                continue
            k, name = k[:-1], touched[-1 - (op[1] % len(touched))]
            if k.endswith("_items"):
                k, name = k[:-6], name + "_items"
                ctx.label("companion-name-used")
        if k == "addlist":
            if name in m.store or name in inst or (name + "_items") in m.store or (name + "_items") in inst:
                continue          # (an event trait over a name that already holds a value: see ASSUMPTIONS)
            if name not in touched:
                touched.append(name)
            fires = name not in inst and name not in explicit and name not in cached
            o.add_trait(name, List(Int))
            inst[name] = "ListInt"
            inst[name + "_items"] = "ItemsEvent"
            declared_by_listener(fires, name)
            interesting = True
            ctx.label("container-instance-trait-added")
            continue
        if k == "add":
            if name not in touched:
                touched.append(name)
            if name in m.store and op[2] in ("Constant", "Event", "Disallow", "ReadOnly5"):
                continue
            if op[2] == "ReadOnly" and name not in m.store and name in o.__dict__:
                # (a deletion on a listened-to name re-materialises the default for its notification: the name holds a value
                #  again; a write-once trait over a name that already holds a value is the same ungenerated situation)
                continue
            fires = name not in inst and name not in explicit and name not in cached
            o.add_trait(name, mk(op[2]))
            inst[name] = op[2]
            declared_by_listener(fires, name)
            interesting = True
            ctx.label("instance-trait-added")
            continue
        if k == "rem":
            if name not in inst:
                continue         # removing a trait that was never added is outside the statement
            o.remove_trait(name)
            if inst[name] == "ListInt":
                inst.pop(name + "_items", None)          # the companion goes with it
            del inst[name]
            cloned.discard(name)         # (remove_trait takes the object's own entry away, whichever way it came about)
            m.store.pop(name, None)
            ctx.label("instance-trait-removed")
            interesting = True
            continue
        if name not in inst and name not in explicit and name not in cached:
            # first resolution of this name by the class: `trait_added` fires, the listener may declare an instance trait
            cached.add(name)
            if name in declare:
                for n_ in (sorted(declare) if declare_all else [name]):
                    if n_ in inst or n_ in cloned:
                        continue         # (the listener only declares names that have no instance trait yet)
                    inst[n_] = declare[n_]
                    if n_ not in touched:
                        touched.append(n_)
                interesting = True
                ctx.label("declared-during-first-resolution")
        if k == "listen":
            o.on_trait_change(_noop, name)
            cloned.add(name)             # the object now has its own COPY of the governing trait (an instance trait, same policy)
            ctx.label("handler-registered-on-a-name")
            continue
        kind, src = res.resolve(inst, name)
        ctx.label("governed-by:" + src)
        if src in ("prefix-multi", "mixin"):
            interesting = True
        if k == "get":
            exp = m.get(kind, name)
            got = outcome(lambda: getattr(o, name))
        elif k == "seti":
            exp = m.set(kind, name, 3)
            got = outcome(lambda: setattr(o, name, 3))
        elif k == "sets":
            exp = m.set(kind, name, "s")
            got = outcome(lambda: setattr(o, name, "s"))
        else:
            exp = m.delete(kind, name)
            got = outcome(lambda: delattr(o, name))
        if not (exp[0] == got[0] and (exp[0] != "ok" or exp[1] == got[1] or exp[1] is got[1])):
            if name in leaky and name not in inst:
                ctx.fail("policy/resolved-before-subclass-creation",
                         "base=%s levels=%r: level %d was instantiated and read %r before its subclasses were created; on the leaf, %r "
                         "on %r (governed by %s trait via %s): expected %r, got %r" % (base, levels, early_at, name, k, name, kind, src, exp, got))
            ctx.fail("policy/%s/%s" % (k if k != "sets" and k != "seti" else "set", kind),
                     "base=%s levels=%r mixin=%r: %r on %r (governed by %s trait via %s): expected %r, got %r; instance traits %r"
                     % (base, levels, mixin, k, name, kind, src, exp, got, inst))
    if interesting:
        ctx.nontrivial()


def stages(tier):
    return [{"name": "hist", "kind": "hyp", "strategy": strategy, "run": run,
             "examples": {"quick": 30000, "thorough": 500000}, "shards": 16}]
