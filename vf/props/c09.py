"""C09 — observe registration is counted, reversible, failure-atomic and weak.

stage hist : histories interleaving observe(add) / observe(remove) for 3 handlers (two functions, one
             bound method) x generated expressions with graph mutations, dropping the method owner,
             gc.collect(); model = multiset of registrations + the reachability model of C08;
             at the end the root is dropped while downstream objects stay alive.
stage fail : fault enumeration: for a generated pre-linked graph and expression a 'bad' object
             (lacking the next trait) is placed at EVERY position of the walk; the failing add must
             leave notifier populations and probe results exactly as before.
"""
import gc
import weakref

from hypothesis import strategies as st

from traits.api import HasTraits, Int
from traits.observation.api import push_exception_handler, pop_exception_handler
from traits.observation.exceptions import NotifierNotFound
from vf.props import c08 as G

ID = "C09"
LEVEL = "fault_enumeration"
RULE = ("hist: Hypothesis histories (<=25 steps) of add/remove for 3 handlers x 2-3 expressions interleaved with graph "
        "mutations, owner collection and gc; fail: for each generated (graph, expression) every walk position k gets a bad "
        "object (all k enumerated) and the failing observe() is compared with the state before; failrem: the same for a "
        "REMOVAL that raises part-way (bad object inserted after registration); optional: histories concentrated on a trait "
        "observed (optionally or as a required name) before/after add_trait, re-added or added twice; non-trivial = history with "
        ">=2 registrations interleaved with a mutation, a removal, a collection, or a failing call at position k>=2; "
        "distinct by digest")
ASSUMPTIONS = ["dispatch='same' only (ui/new dispatch need an event loop / threads whose schedule the harness does not own)",
               "removal of an expression that was never registered is only generated when no registration of that handler is live "
               "(ref-counted notifiers make overlapping removals partly succeed, which the statement does not cover)",
               "CPython reference counting is deterministic: collection points are explicit del + gc.collect() steps"]

Node = G.Node


class Bare(HasTraits):
    """An object lacking every link trait (and `value`)."""
    other = Int


class Owner:
    def __init__(self, log):
        self.log = log

    def meth(self, event):
        self.log.append("m")


LINK_NAMES = ("value", "child", "children", "table", "group", "mchild", "mlist", "mdef", "tag", "trait_added", "extra", "xlist",
              "xlist_items")
OPT = "<trait('extra', optional=True)>"
REQ = "<trait('extra')>"          # a REQUIRED named observer of a trait that was added with add_trait
SPECIAL_TEXTS = (OPT, REQ)


def population(objs):
    """Notifier populations per (object, trait) and per container, for all given objects."""
    tot = {}
    for n in objs:
        for nm in LINK_NAMES:
            t = n._trait(nm, 0) if n.trait(nm) is not None else None
            ns = t._notifiers(False) if t is not None else None
            tot[(n.__dict__.get("_nid"), nm)] = len(ns) if ns else 0
        for nm in ("children", "table", "group", "mlist"):
            c = n.__dict__.get(nm)
            if c is not None:
                tot[(n.__dict__.get("_nid"), nm + "[]")] = len(c.notifiers)
    return tot


def make_pool(case):
    npool = case["npool"]
    pool = [Node() for _ in range(npool)]
    for i, n in enumerate(pool):
        n.__dict__["_nid"] = i
        # explicit values: default materialisation is C08/C10's subject
        n.child = None
        n.children = []
        n.table = {}
        n.group = set()
        n.mchild = None
        n.mlist = []

    def link(o, kind, t):
        if kind == "child":
            o.child = t
        elif kind in ("mchild", "+metac"):
            o.mchild = t
        elif kind == "children":
            o.children.append(t)
        elif kind in ("mlist", "+metal"):
            o.mlist.append(t)
        elif kind == "table":
            o.table["a"] = t
        else:
            o.group.add(t)
    for path in case["exprs"]:
        for p in path:
            cur = 0
            for (l, _n) in p[0]:
                nxt = (cur + 1) % npool
                link(pool[cur], l, pool[nxt])
                cur = nxt
    for kind, a, b in case.get("prelink", []):
        link(pool[a % npool], kind, pool[b % npool])
    return pool, link


def self_referential(root, exprs):
    for paths in exprs:
        try:
            r = G.Reach(root, paths)
        except ValueError:
            return True
        if any(r.multi_depth(k) for k in r.positions):
            return True
    return False


# ----------------------------------------------------------------------------- stage hist
P = st.integers(0, 5)
HOP = st.one_of(
    st.tuples(st.just("add"), st.integers(0, 2), st.integers(0, 2), st.booleans()),
    st.tuples(st.just("add"), st.integers(0, 2), st.integers(0, 2), st.booleans()),
    st.tuples(st.just("rem"), st.integers(0, 2), st.integers(0, 2), st.booleans()),
    # remove the i-th live registration (construction: removals mostly hit something registered)
    st.tuples(st.just("rem_live"), st.integers(0, 5)), st.tuples(st.just("rem_live"), st.integers(0, 5)),
    st.tuples(st.just("rem_live"), st.integers(0, 5)),
    st.tuples(st.just("set_child"), P, st.integers(-1, 5)), st.tuples(st.just("append"), P, P),
    st.tuples(st.just("pop"), P), st.tuples(st.just("set_children"), P, st.lists(P, max_size=2)),
    st.tuples(st.just("table_set"), P, P), st.tuples(st.just("group_add"), P, P), st.tuples(st.just("mlist_append"), P, P),
    st.tuples(st.just("slice_mult"), P, st.integers(0, 2), st.integers(0, 3), st.integers(0, 3)),
    st.tuples(st.just("slice_mult"), P, st.integers(0, 2), st.integers(0, 3), st.integers(0, 3)),
    st.tuples(st.just("slice_mult"), P, st.integers(0, 2), st.integers(0, 3), st.integers(0, 3)),
    st.tuples(st.just("remove_one"), P, P),
    st.tuples(st.just("remove_one"), P, P),
    st.tuples(st.just("kill_owner")), st.tuples(st.just("gc")),
    # an OPTIONAL trait that does not exist yet: observe it, add it later with add_trait, change it, unobserve
    st.tuples(st.just("add_opt"), st.integers(0, 2)), st.tuples(st.just("rem_opt"), st.integers(0, 2)),
    st.tuples(st.just("add_trait_root")), st.tuples(st.just("set_extra")), st.tuples(st.just("readd_trait_root")),
).map(list)


def hist_strategy(tier):
    return st.fixed_dictionaries({
        "exprs": st.lists(G.expr_strategy(), min_size=2, max_size=3),
        "npool": st.integers(2, 5),
        "prelink": st.lists(st.tuples(st.sampled_from(["child", "children", "table", "group", "mlist"]), st.integers(0, 2), P).map(list), max_size=3),
        "ops": st.lists(HOP, min_size=2, max_size=25),
        # duplicates scenario: the first expression goes through root.children, which starts as [x, x, y]
        "dups": st.sampled_from([None, None, True, False]),
        # the second plain handler is a CLOSURE over the observed root (object -> trait -> notifier -> handler -> object:
        # a reference cycle that only the cyclic collector can reclaim, and only if it is shown every edge)
        "closure_root": st.sampled_from([False, False, True]),
    })


OPT_OP = st.one_of(
    st.tuples(st.just("add_opt"), st.integers(0, 2)), st.tuples(st.just("add_opt"), st.integers(0, 2)),
    st.tuples(st.just("rem_opt"), st.integers(0, 2)), st.tuples(st.just("rem_opt"), st.integers(0, 2)),
    st.tuples(st.just("add_trait_root")), st.tuples(st.just("set_extra")), st.tuples(st.just("readd_trait_root")),
    st.tuples(st.just("add_again_root")), st.tuples(st.just("add_req"), st.integers(0, 2)), st.tuples(st.just("rem_req"), st.integers(0, 2)),
    # a CONTAINER trait added to the root (it brings an `xlist_items` companion event trait with it)
    st.tuples(st.just("add_xlist")),
    st.tuples(st.just("add_trait_root")), st.tuples(st.just("set_extra")),
    st.tuples(st.just("add"), st.integers(0, 2), st.integers(0, 2), st.booleans()), st.tuples(st.just("rem_live"), st.integers(0, 5)),
    st.tuples(st.just("gc")), st.tuples(st.just("kill_owner")),
).map(list)


def opt_strategy(tier):
    """Histories concentrated on the optional trait that is observed before it exists."""
    return st.fixed_dictionaries({
        "exprs": st.tuples(G.expr_strategy(), st.one_of(G.expr_strategy(), st.just([[[], "*", True]]))).map(list),
        "npool": st.just(2), "prelink": st.just([]), "dups": st.just(None),
        "ops": st.lists(OPT_OP, min_size=3, max_size=12),
    })


def hist_run(case, ctx):
    if case.get("dups") is not None:
        case = dict(case)
        case["exprs"] = [[[[["children", bool(case["dups"])]], "value", True]]] + list(case["exprs"][1:])
        case["prelink"] = [["children", 0, 1], ["children", 0, 1], ["children", 0, 2]] + list(case["prelink"])
        case["ops"] = [[o[0], 0] + list(o[2:]) if o[0] in ("slice_mult", "remove_one", "pop", "append") else o for o in case["ops"]]
    pool, link = make_pool(case)
    npool = len(pool)
    root = pool[0]
    exprs = case["exprs"]
    texts = [G.to_text(p) for p in exprs]
    log = []
    owner = Owner(log)
    handlers = [lambda e: log.append("f0"), lambda e: log.append("f1"), owner.meth]
    closure_root = bool(case.get("closure_root"))
    if closure_root:
        handlers[1] = (lambda r: (lambda e: (log.append("f1"), r)[0]))(root)
        ctx.label("handler-closes-over-root")
    tags = ["f0", "f1", "m"]
    counts = {}          # (handler index, canonical expression text) -> live registrations
    base = population(pool)
    owner_alive = True
    known_f16 = any(b.endswith("/self-referential") for b in ctx.active_known)
    n_reg = n_mut = 0
    interesting = False
    push_exception_handler(handler=lambda ev: None, reraise_exceptions=True)
    try:
        for op in case["ops"]:
            k = op[0]
            if self_referential(root, exprs):
                ctx.exclude("self-referential graph (C08/F16 territory)")
                break
            if k == "rem_live":
                live = sorted(kk for kk, c in counts.items() if c > 0 and kk[1] not in SPECIAL_TEXTS)
                if not live:
                    continue
                hi, text_, api = live[op[1] % len(live)]
                op = ["rem", hi, texts.index(text_), api]
                k = "rem"
            if k in ("add_req", "rem_req"):
                from traits.observation.api import trait as _trait
                hi = op[1]
                if (hi == 2 and not owner_alive) or root.trait("extra") is None:
                    continue
                key = (hi, REQ, True)
                if k == "add_req":
                    root.observe(handlers[hi], _trait("extra"))
                    counts[key] = counts.get(key, 0) + 1
                    n_reg += 1
                    interesting = True
                    ctx.label("required-registration-on-added-trait")
                elif counts.get(key, 0) > 0:
                    try:
                        root.observe(handlers[hi], _trait("extra"), remove=True)
                    except Exception as e:
                        ctx.fail("remove/raised", "removing the registration on the added trait raised %r" % (e,))
                    counts[key] -= 1
            elif k == "add_xlist":
                if root.trait("xlist") is None:
                    from traits.api import List as _List
                    root.add_trait("xlist", _List(Int))
                    ctx.label("container-trait-added")
                    interesting = True
            elif k == "add_again_root":
                if root.trait("extra") is not None:
                    root.add_trait("extra", Int(0))          # a second add_trait for the same, already added, name
                    ctx.label("added-trait-added-again")
                    interesting = True
            elif k in ("add_opt", "rem_opt"):
                from traits.observation.api import trait as _trait
                hi = op[1]
                if hi == 2 and not owner_alive:
                    continue
                key = (hi, OPT, True)
                if k == "add_opt":
                    root.observe(handlers[hi], _trait("extra", optional=True))
                    counts[key] = counts.get(key, 0) + 1
                    n_reg += 1
                    ctx.label("optional-registration")
                elif counts.get(key, 0) > 0:
                    try:
                        root.observe(handlers[hi], _trait("extra", optional=True), remove=True)
                    except Exception as e:
                        ctx.fail("remove/raised", "removing the optional-trait registration raised %r" % (e,))
                    counts[key] -= 1
                    interesting = True
            elif k == "add_trait_root":
                if root.trait("extra") is None:
                    root.add_trait("extra", Int(0))
                    ctx.label("optional-trait-added")
                    interesting = True
            elif k == "readd_trait_root":
                if root.trait("extra") is not None:
                    root.remove_trait("extra")
                    root.add_trait("extra", Int(0))
                    ctx.label("optional-trait-re-added")
            elif k == "set_extra":
                if root.trait("extra") is not None:
                    del log[:]
                    root.extra += 1
                    via_expr = set()       # `*` (anytrait) registrations match the added trait too
                    for (h2, text2, _a2), c2 in counts.items():
                        if c2 > 0 and text2 not in SPECIAL_TEXTS:
                            try:
                                if G.Reach(root, exprs[texts.index(text2)]).notify.get(("t", id(root), "extra")):
                                    via_expr.add(h2)
                            except ValueError:
                                pass
                    for hi, tag in enumerate(tags):
                        exp = 1 if (counts.get((hi, OPT, True), 0) > 0 or counts.get((hi, REQ, True), 0) > 0 or hi in via_expr) \
                            and (hi != 2 or owner_alive) else 0
                        if log.count(tag) != exp:
                            ctx.fail("probe/optional-%s" % ("missed" if exp else "unexpected"),
                                     "changing the later-added optional trait called handler %s %d time(s), expected %d; registrations %r"
                                     % (tag, log.count(tag), exp, {kk: v for kk, v in counts.items() if v}))
            elif k in ("add", "rem"):
                hi, ei, api = op[1], op[2] % len(exprs), op[3]
                if hi == 2 and not owner_alive:
                    continue
                key = (hi, texts[ei], bool(api))     # "the same expression": same text, or the same API-built expression
                h = handlers[hi]
                try:
                    G.Reach(root, exprs[ei])
                    walk_ok = True
                except ValueError:
                    walk_ok = False
                try:
                    target = G.to_expr(exprs[ei]) if api else texts[ei]
                except ValueError:
                    target = texts[ei]
                if k == "add":
                    before = population(pool)
                    try:
                        root.observe(h, target)
                        ok = True
                    except ValueError as e:
                        ok = False
                    if ok != walk_ok and not api:
                        ctx.fail("add/outcome", "observe(%r) %s but the model walk %s" % (texts[ei], "succeeded" if ok else "raised",
                                                                                         "succeeds" if walk_ok else "fails"))
                    if ok:
                        counts[key] = counts.get(key, 0) + 1
                        n_reg += 1
                        if n_reg >= 2 and n_mut:
                            interesting = True
                    else:
                        sig = "/multi-graph" if len(exprs[ei]) > 1 else "/linear"
                        if population(pool) != before:
                            ctx.fail("atomic/add" + sig, "failing observe(%r) left notifiers behind: %r" % (
                                texts[ei], {kk: (before.get(kk), v) for kk, v in population(pool).items() if before.get(kk) != v}))
                        ctx.label("failing-add")
                    h = None
                else:
                    live_h = sum(c for (h2, _e, _a), c in counts.items() if h2 == hi)
                    if counts.get(key, 0) == 0 and live_h > 0:
                        # removal of an expression that is not registered while OTHER registrations of the handler are
                        # live: ref-counted notifiers may make it partly "succeed" (not covered by the statement), but
                        # IF it raises it must have changed nothing
                        if not walk_ok:
                            h = None
                            continue
                        before = population(pool)
                        try:
                            root.observe(h, target, remove=True)
                            h = None
                            ctx.label("overlapping-removal-stole-notifiers")
                            break         # the model no longer knows what is registered
                        except NotifierNotFound:
                            h = None
                            ctx.label("overlapping-removal-raised")
                            if population(pool) != before:
                                ctx.fail("atomic/remove", "observe(%r, remove=True) raised NotifierNotFound but changed notifier "
                                         "populations: %r" % (texts[ei], {kk: (before.get(kk), v) for kk, v in population(pool).items()
                                                                          if before.get(kk) != v}))
                        continue
                    if not walk_ok:
                        h = None
                        continue
                    before = population(pool)
                    try:
                        root.observe(h, target, remove=True)
                        ok = True
                    except NotifierNotFound:
                        ok = False
                    except Exception as e:
                        ctx.fail("remove/raised", "observe(%r, remove=True) raised %r" % (texts[ei], e))
                    h = None
                    if counts.get(key, 0) > 0:
                        if not ok:
                            ctx.fail("remove/not-found", "removing a live registration of %r raised NotifierNotFound (counts %r)"
                                     % (texts[ei], counts))
                        counts[key] -= 1
                        interesting = True
                        ctx.label("removal")
                    else:
                        ctx.label("extra-removal")
                        interesting = True
                        if ok and any(G.Reach(root, exprs[ei]).notify.values()):
                            ctx.fail("remove/extra-succeeded", "removing %r with no live registration did not raise NotifierNotFound" % texts[ei])
                        if population(pool) != before:
                            ctx.fail("remove/extra-changed", "a removal that raised changed notifier populations")
            elif k == "kill_owner":
                if owner_alive:
                    w = weakref.ref(owner)
                    handlers[2] = None
                    owner = None
                    gc.collect()
                    if w() is not None:
                        ctx.fail("weak/owner", "registrations keep the bound-method handler's owner alive (counts %r)" % counts)
                    owner_alive = False
                    interesting = True
                    ctx.label("owner-collected")
                    for kk in list(counts):
                        if kk[0] == 2:
                            counts[kk] = 0
            elif k == "gc":
                gc.collect()
                ctx.label("gc")
            else:
                n = pool[op[1] % npool]
                n_mut += 1
                try:
                    if k == "set_child":
                        n.child = None if op[2] < 0 else pool[op[2] % npool]
                    elif k == "append":
                        n.children.append(pool[op[2] % npool])
                    elif k == "pop":
                        if n.children:
                            n.children.pop()
                    elif k == "set_children":
                        n.children = [pool[i % npool] for i in op[2]]
                    elif k == "table_set":
                        n.table["a"] = pool[op[2] % npool]
                    elif k == "group_add":
                        n.group.add(pool[op[2] % npool])
                    elif k == "mlist_append":
                        n.mlist.append(pool[op[2] % npool])
                    elif k == "slice_mult":
                        # replace a slice by k copies of its first element (changes an object's multiplicity)
                        c = n.children
                        if op[2] < len(c):
                            c[op[2]:op[3]] = [c[op[2]]] * op[4]
                            ctx.label("multiplicity-op")
                    elif k == "remove_one":
                        x = pool[op[2] % npool]
                        if x in n.children:
                            n.children.remove(x)
                except Exception as e:
                    ctx.fail("mutation/raised", "%r raised %r with registrations %r" % (op, e, counts))
            if self_referential(root, exprs):
                ctx.exclude("self-referential graph (C08/F16 territory)")
                break
            # ---- probe every pool object
            reaches = {}
            for (hi, text, _api), c in counts.items():
                if c > 0 and text not in SPECIAL_TEXTS:
                    ei = texts.index(text)
                    r = G.Reach(root, exprs[ei])
                    for n in pool:
                        if r.notify.get(("t", id(n), "value")):
                            reaches.setdefault(hi, set()).add(n._nid)
            for n in pool:
                del log[:]
                n.value += 1
                for hi, tag in enumerate(tags):
                    exp = 1 if n._nid in reaches.get(hi, ()) else 0
                    if hi == 2 and not owner_alive:
                        exp = 0
                    if log.count(tag) != exp:
                        ctx.fail("probe/%s" % ("missed" if exp else "unexpected"),
                                 "after %r: changing N%d.value called handler %s %d time(s), expected %d; registrations %r"
                                 % (op, n._nid, tag, log.count(tag), exp, {kk: v for kk, v in counts.items() if v}))
            if all(c == 0 for c in counts.values()) and n_reg:
                ctx.label("balanced")
                p = population(pool)
                if owner_alive or not any(kk[0] == 2 for kk in counts):
                    if p != base:
                        diff_ = {kk: (base.get(kk), v) for kk, v in p.items() if base.get(kk) != v}
                        # F49: what is left sits only on the `<name>_items` companion of a container trait added later
                        sig = "/items-companion" if all(kk[1] == "xlist_items" for kk in diff_) else ""
                        ctx.fail("balance/populations" + sig, "all registrations removed but notifier populations differ: %r" % diff_)
        # ---- a handler that itself refers to the root: everything is garbage once the harness lets go of the whole graph,
        #      and the cyclic collector must be able to see that (nothing may be hidden from its traversal)
        if closure_root and any(c > 0 for kk, c in counts.items() if kk[0] == 1):
            w = weakref.ref(root)
            del pool[:]
            del handlers[:]
            root = n = r = x = c = h = link = owner = None
            gc.collect()
            if w() is not None:
                ctx.fail("weak/cycle-through-handler", "a root observed by a closure that refers to it is never collected, although "
                         "nothing outside the cycle refers to it (counts %r)" % {kk: v for kk, v in counts.items() if v})
            ctx.label("root-with-closure-collected")
            interesting = True
            counts = {}
        # ---- weakness of the observed object: drop the root, keep downstream objects alive
        if root is not None and not self_referential(root, exprs) and any(c > 0 for c in counts.values()):
            others = pool[1:]
            holders = []
            for n in others:
                vals = [n.child, n.mchild] + list(n.children) + list(n.table.values()) + list(n.group) + list(n.mlist) + \
                       [n.__dict__.get("mdef")]
                if any(v is root for v in vals):
                    holders.append(n)
            if not holders:
                w = weakref.ref(root)
                pool[0] = None
                if closure_root:
                    handlers[1] = None          # (the harness's own reference to the closure that refers to the root)
                # drop every harness-held local that may refer to the root
                root = n = r = x = c = h = holders = vals = live = None
                gc.collect()
                if w() is not None:
                    ctx.fail("weak/root", "registrations keep the observed root alive while downstream objects live (counts %r)"
                             % {kk: v for kk, v in counts.items() if v})
                ctx.label("root-collected")
                interesting = True
                del log[:]
                try:
                    for n in others:
                        n.value += 1
                        n.child = None
                        n.children.append(others[0])
                        n.children = []
                except Exception as e:
                    ctx.fail("weak/after-root-collected-raised", "change after the root was collected raised %r" % (e,))
                if log:
                    ctx.fail("weak/after-root-collected-called", "handlers %r called after the root was collected" % (log,))
    finally:
        pop_exception_handler()
    if interesting:
        ctx.nontrivial()


# ----------------------------------------------------------------------------- stage fail
def fail_strategy(tier):
    return st.fixed_dictionaries({
        "exprs": st.lists(G.expr_strategy(), min_size=1, max_size=1),
        "npool": st.integers(3, 6),
        "prelink": st.lists(st.tuples(st.sampled_from(["child", "children", "table", "group", "mlist"]), st.integers(0, 3), P).map(list), max_size=4),
        # how the expression is handed over: DSL text, the expression API, or the LIST form (one text per path)
        "api": st.sampled_from([False, True, "list", "list"]),
        "preregistered": st.booleans(),
    })


def walk_positions(root, paths):
    """(object, link kind) pairs visited by the model walk, in walk order: places where a bad object can be put."""
    out = []
    seen = set()
    for pi, path in enumerate(paths):
        objs = [root]
        for (l, n) in path[0]:
            nxt = []
            for o in objs:
                if not isinstance(o, Node):
                    continue
                if (id(o), l, pi) not in seen:
                    seen.add((id(o), l, pi))
                    out.append((o, l, pi))
                if l == "child":
                    v = [o.child]
                elif l == "+metac":
                    v = [o.mchild]
                elif l == "children":
                    v = list(o.children)
                elif l in ("+metal", "mlist"):
                    v = list(o.mlist)
                elif l == "table":
                    v = list(o.table.values())
                else:
                    v = list(o.group)
                nxt.extend(x for x in v if x is not None)
            objs = nxt
    return out


def fail_run(case, ctx):
    paths = case["exprs"][0]
    text = G.to_text(paths)
    # how many positions does the fault-free walk have?
    pool, link = make_pool(case)
    if self_referential(pool[0], [paths]):
        ctx.exclude("self-referential graph")
        return
    npos = len(walk_positions(pool[0], paths))
    if npos == 0:
        return
    ctx.evaluations -= 1
    for k in range(npos):
        ctx.add_evals(1)
        pool, link = make_pool(case)
        root = pool[0]
        o, l, pi = walk_positions(root, paths)[k]
        # the step after this link needs a trait the bad object lacks
        bad = Bare()
        log = []
        h = lambda e: log.append("h")
        other = lambda e: log.append("o")
        push_exception_handler(handler=lambda ev: None, reraise_exceptions=True)
        try:
            if case["preregistered"]:
                root.observe(other, "value")     # an unrelated registration that must survive untouched
            link(o, l, bad)
            try:
                G.Reach(root, paths)
                continue          # the bad object is not reached by a step that needs a trait (e.g. path ends here)
            except ValueError:
                pass
            before = population(pool)
            probes_before = []
            for n in pool:
                del log[:]
                n.value += 1
                probes_before.append(sorted(log))
            try:
                target = [G.to_text([pp]) for pp in paths] if case["api"] == "list" else G.to_expr(paths) if case["api"] else text
            except ValueError:
                target = text
            try:
                root.observe(h, target)
                ctx.label("bad-object-not-fatal")
                continue
            except ValueError:
                pass
            except Exception as e:
                ctx.fail("atomic/add/exception-class", "%r with a bad object at walk position %d raised %r" % (text, k, e))
            ctx.label("failing-add-at-k=%d" % min(k, 5))
            if k >= 1:
                ctx.nontrivial(key=[case, k])
            sig = "/multi-graph" if len(paths) > 1 else "/linear"
            after = population(pool)
            if after != before:
                ctx.fail("atomic/add" + sig, "%r (api=%s): failing observe() (bad object behind %r.%s, walk position %d/%d) left "
                         "notifiers behind: %r" % (text, case["api"], o, l, k, npos,
                                                   {kk: (before.get(kk), v) for kk, v in after.items() if before.get(kk) != v}))
            for n, pb in zip(pool, probes_before):
                del log[:]
                n.value += 1
                if sorted(log) != pb:
                    ctx.fail("atomic/add" + sig, "%r: after the failing observe() changing N%d.value calls %r, before it called %r"
                             % (text, n._nid, sorted(log), pb))
        finally:
            pop_exception_handler()


def failrem_run(case, ctx):
    """A REMOVAL that raises part-way: register on the healthy graph, put an object lacking the next trait at walk
    position k (the mutation itself reports the maintainer's error), then observe(..., remove=True) raises and must
    leave every notifier population and every handler call exactly as it was just before the attempt."""
    paths = case["exprs"][0]
    text = G.to_text(paths)
    pool, link = make_pool(case)
    if self_referential(pool[0], [paths]):
        ctx.exclude("self-referential graph")
        return
    try:
        G.Reach(pool[0], paths)
    except ValueError:
        return
    npos = len(walk_positions(pool[0], paths))
    if npos == 0:
        return
    ctx.evaluations -= 1
    for k in range(npos):
        ctx.add_evals(1)
        pool, link = make_pool(case)
        root = pool[0]
        o, l, pi = walk_positions(root, paths)[k]
        bad = Bare()
        log = []
        h = lambda e: log.append("h")
        push_exception_handler(handler=lambda ev: None, reraise_exceptions=True)
        try:
            try:
                target = [G.to_text([pp]) for pp in paths] if case["api"] == "list" else G.to_expr(paths) if case["api"] else text
            except ValueError:
                target = text
            try:
                root.observe(h, target)
            except ValueError:
                continue
            if case["preregistered"]:
                root.observe(h, target)          # a second, counted registration of the same handler
            try:
                link(o, l, bad)
            except Exception:
                pass                             # the maintainer cannot hook the bad object; the mutation itself took place
            try:
                G.Reach(root, paths)
                continue                         # the bad object is not reached by a step that needs a trait
            except ValueError:
                pass
            before = population(pool)
            probes_before = []
            for n in pool:
                del log[:]
                n.value += 1
                probes_before.append(len(log))
            try:
                root.observe(h, target, remove=True)
                ctx.label("removal-with-bad-object-succeeds")
                continue
            except (ValueError, NotifierNotFound):
                pass
            except Exception as e:
                ctx.fail("atomic/remove/exception-class", "%r: removal with a bad object at walk position %d raised %r" % (text, k, e))
            ctx.label("failing-removal-at-k=%d" % min(k, 5))
            ctx.nontrivial(key=[case, "rem", k])
            sig = "/multi-graph" if len(paths) > 1 else "/linear"
            after = population(pool)
            if after != before:
                ctx.fail("atomic/failing-remove" + sig, "%r (api=%s): observe(remove=True) raised (bad object behind %r.%s, walk "
                         "position %d/%d) but changed notifier populations: %r"
                         % (text, case["api"], o, l, k, npos, {kk: (before.get(kk), v) for kk, v in after.items() if before.get(kk) != v}))
            for n, pb in zip(pool, probes_before):
                del log[:]
                n.value += 1
                if len(log) != pb:
                    ctx.fail("atomic/failing-remove" + sig, "%r: after the failing removal changing N%d.value calls the handler %d "
                             "time(s), before the attempt %d" % (text, n._nid, len(log), pb))
        finally:
            pop_exception_handler()


def stages(tier):
    return [
        {"name": "failrem", "kind": "hyp", "strategy": fail_strategy, "run": failrem_run,
         "examples": {"quick": 1500, "thorough": 30000}, "shards": 16},
        {"name": "hist", "kind": "hyp", "strategy": hist_strategy, "run": hist_run,
         "examples": {"quick": 4000, "thorough": 60000}, "shards": 16},
        {"name": "optional", "kind": "hyp", "strategy": opt_strategy, "run": hist_run,
         "examples": {"quick": 4000, "thorough": 60000}, "shards": 16},
        {"name": "fail", "kind": "hyp", "strategy": fail_strategy, "run": fail_run,
         "examples": {"quick": 2000, "thorough": 40000}, "shards": 16},
    ]
