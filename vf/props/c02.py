"""C02 — change handlers fire exactly once per real change, with truthful old/new.

Hypothesis histories of assignments (normal, quiet, rejected), default reads on a class with one
attribute per (trait kind x comparison mode), each watched by a static handler, the class-wide
_anytrait_changed, an on_trait_change handler and an observe handler; a generated subset raises.
Oracle: per-step model of the expected call count from the values readable before/after and the
comparison mode; identity of reported old/new; agreement of the mechanisms.
"""
import numpy as np
from hypothesis import strategies as st

from traits.api import (HasTraits, Any, Int, Str, List, Instance, Event, Float, TraitError, CInt, observe, ReadOnly,
                        push_exception_handler, pop_exception_handler)
from traits.trait_base import Undefined
from traits.observation.api import (push_exception_handler as obs_push, pop_exception_handler as obs_pop)

ID = "C02"
LEVEL = "exploration"
RULE = ("Hypothesis histories (<=30 steps) over 19 attributes (Any/Int/Str/Float/List/Instance x comparison mode none/"
        "identity/equality, Event) with ops set / quiet set / read; values drawn by the attribute's type (85%) from a pool "
        "with repeats, equal-but-not-identical objects, NaNs, objects whose ==/bool raises, numpy arrays, rejected values; "
        "optional pair of object-level handlers (the first may remove itself / raise during dispatch) and a 'bare' class "
        "variant in which six attributes have no trait-level notifier at all; "
        "non-trivial = history containing an equal-not-identical pair, a rejection, a default read, a quiet set or a raising "
        "handler; distinct by digest")
ASSUMPTIONS = ["default exception-handling configuration (handler exceptions are swallowed and logged)",
               "for pairs whose == / != raises or disagree, or whose truth value raises, the statement fixes no decision: "
               "only agreement of the mechanisms (and that the assignment itself does not raise) is required"]


class BadEq:
    def __eq__(s, o):
        raise RuntimeError("eq")

    def __ne__(s, o):
        raise RuntimeError("ne")
    __hash__ = object.__hash__

    def __repr__(s):
        return "BadEq()"


class Foo(HasTraits):
    pass


nan1, nan2 = float("nan"), float("nan")
l1, l2 = [1, 2], [1, 2]
s1, s2 = "".join(["a", "b"]), "".join(["a", "b"])
f1, f2 = Foo(), Foo()
arr1, arr2 = np.array([1, 2]), np.array([1, 2])
POOL = [0, 1, 1.0, True, 2, nan1, nan2, l1, l2, [3], s1, s2, "c", None, f1, f2, BadEq(), (1,), (1,), "bad", 3.5,
        arr1, arr2, np.array([1, 3]), 1 + 0j, [], 257, 257 + 0, 2.0, "12", "7"]
MODES = {"n": 0, "i": 1, "e": 2}
KINDS = ["Any", "Int", "Str", "List", "Inst", "Event", "Float", "CEvent", "Ro"]
VALID = {
    "Any": list(range(len(POOL))),
    "Int": [0, 1, 3, 4, 26, 27],
    "Str": [10, 11, 12, 19],
    "List": [7, 8, 9, 25],
    "Inst": [13, 14, 15],
    "Event": list(range(len(POOL))),
    "CEvent": [0, 1, 2, 3, 4, 20, 26, 28, 29, 30, 29, 30],      # a TYPED event, Event(CInt): handlers are told the validated value
    "Float": [0, 1, 2, 5, 6, 20, 28],
    # a write-once attribute: its ONE defining assignment is a change like any other (old value Undefined), every later one
    # is rejected
    "Ro": list(range(len(POOL))),
}
NAMES = []
for _k in KINDS:
    for _m in MODES:
        if _k in ("Event", "CEvent", "Ro") and _m != "e":
            continue
        NAMES.append("%s_%s" % (_k.lower(), _m))


def mk(kind, mode):
    cm = MODES[mode]
    return {"Any": lambda: Any(comparison_mode=cm), "Int": lambda: Int(comparison_mode=cm),
            "Str": lambda: Str(comparison_mode=cm), "List": lambda: List(Int, comparison_mode=cm),
            "Inst": lambda: Instance(Foo, comparison_mode=cm), "Event": lambda: Event(), "CEvent": lambda: Event(CInt),
            "Float": lambda: Float(comparison_mode=cm), "Ro": lambda: ReadOnly}[kind]()


# traits that get NO trait-level handler at all in the "bare" variant of the class (which also has no static
# _anytrait_changed, because that one is attached to every class trait): only object-level handlers see their changes
BARE = ("any_e", "any_i", "int_e", "list_i", "event_e", "str_n")


BOTH = ("int_n", "any_e", "float_i", "event_e")       # traits whose class defines BOTH _<name>_changed and _<name>_fired
MAGIC = ("int_e", "any_n", "str_i")        # names whose `_<name>_changed` in the base class is an @observe-decorated method


def build(raisers, log, bare=False, sub=False, magic=False):
    ns = {}
    for nm in NAMES:
        kind, mode = nm.split("_")
        kind = {"any": "Any", "int": "Int", "str": "Str", "list": "List", "inst": "Inst", "event": "Event", "float": "Float", "cevent": "CEvent", "ro": "Ro"}[kind]
        ns[nm] = mk(kind, mode)
        if bare and nm in BARE:
            continue
        if magic and nm in MAGIC:
            # a handler with the MAGIC NAME but declared with @observe: it is an observer, not also a static handler
            def mkmagic(nm):
                def h(self, event):
                    # (if it were ALSO installed as a static handler it would be called a second time, with the bare new value)
                    log.append(("magic", nm, getattr(event, "old", "<called-as-static-handler>"), getattr(event, "new", event)))
                h.__name__ = "_%s_changed" % nm
                return observe(nm)(h)
            ns["_%s_changed" % nm] = mkmagic(nm)
            continue

        def mkstatic(nm):
            def static(self, name, old, new):
                log.append(("static", nm, old, new))
                if "static" in raisers:
                    raise RuntimeError("boom")
            return static
        ns["_%s_%s" % (nm, "fired" if kind in ("Event", "CEvent") else "changed")] = mkstatic(nm)
        if nm in BOTH:
            def mkstatic2(nm):
                def static2(self, name, old, new):
                    log.append(("static2", nm, old, new))
                return static2
            ns["_%s_%s" % (nm, "changed" if kind in ("Event", "CEvent") else "fired")] = mkstatic2(nm)

    def anyt(self, name, old, new):
        if name in NAMES:
            log.append(("any", name, old, new))
            if "any" in raisers:
                raise ValueError("boom")
    if not bare:
        ns["_anytrait_changed"] = anyt
    cls = type("C", (HasTraits,), ns)
    if sub:
        # a subclass that only overrides DEFAULT VALUES (plain values in the class body): the comparison mode and every
        # handler of the inherited definition stay what they were declared to be
        over = {"int_n": 5, "int_i": 5, "int_e": 5, "str_n": "d", "str_i": "d", "any_n": None, "any_i": 1, "float_n": 1.5,
                "float_i": 1.5}
        cls = type("CSub", (cls,), over)
    if magic:
        cls = type("CMagicSub", (cls,), {})        # the object is of a SUBCLASS that does not redefine the handlers
    return cls


@st.composite
def op_strategy(draw):
    ni = draw(st.integers(0, len(NAMES) - 1))
    kind = {"any": "Any", "int": "Int", "str": "Str", "list": "List", "inst": "Inst", "event": "Event", "float": "Float", "cevent": "CEvent", "ro": "Ro"}[NAMES[ni].split("_")[0]]
    op = draw(st.sampled_from(["set", "set", "set", "set", "set", "read", "setq", "setq_kw"]))
    if draw(st.integers(0, 99)) < 85:
        vi = draw(st.sampled_from(VALID[kind]))
    else:
        vi = draw(st.integers(0, len(POOL) - 1))
    return [ni, op, vi]


def strategy(tier):
    return st.fixed_dictionaries({
        "raisers": st.lists(st.sampled_from(["static", "any", "otc", "obs"]), max_size=2, unique=True),
        # two object-level handlers registered without a name; the first may remove itself during its first call
        "object_level": st.sampled_from([None, None, "plain", "oneshot", "oneshot-raising"]),
        "bare": st.sampled_from([False, False, True]),
        "sub_defaults": st.sampled_from([False, False, True]),
        "magic": st.sampled_from([False, False, True]),
        "wildcard_observer": st.booleans(),
        "reregister": st.sampled_from([False, False, True]),
        "churn": st.sampled_from([False, False, True]),
        "readd": st.sampled_from([False, False, True]),
        "ops": st.lists(op_strategy(), min_size=1, max_size=30),
    })


def log_has_first_alive(log, ol_state, alive_before):
    """The one-shot handler is expected for a change iff it was still registered when the change happened."""
    return alive_before


def run(case, ctx):
    log = []
    raisers = set(case["raisers"])
    bare = bool(case.get("bare"))
    magic = bool(case.get("magic")) and not bare
    cls = build(raisers, log, bare, bool(case.get("sub_defaults")), magic)
    if magic:
        ctx.label("observe-decorated-magic-names")
    if case.get("sub_defaults"):
        ctx.label("subclass-overriding-defaults")
    o = cls()
    if bare:
        ctx.label("bare-class")

    def otc(obj, name, old, new):
        log.append(("otc", name, old, new))
        if "otc" in raisers:
            raise KeyError("boom")

    def obs(e):
        log.append(("obs", e.name, e.old, e.new))
        if "obs" in raisers:
            raise TypeError("boom")
    for nm in NAMES:
        if bare and nm in BARE:
            continue
        o.on_trait_change(otc, nm)
        o.observe(obs, nm)
    if case.get("reregister"):
        # registering a handler that is ALREADY registered changes nothing, whatever the priority flag says
        for i_, nm in enumerate(NAMES):
            if bare and nm in BARE:
                continue
            o.on_trait_change(otc, nm, priority=bool(i_ % 2))
        ctx.label("handlers-registered-twice")
    if case.get("readd"):
        # the object re-declares some of its traits for itself (add_trait over the existing name, same definition): every
        # handler keeps serving it exactly as before
        for i_, nm in enumerate(NAMES):
            if i_ % 3 == 0 and not nm.startswith(("ro_", "event_", "cevent_")):
                kind_, mode_ = nm.split("_")
                o.add_trait(nm, mk({"any": "Any", "int": "Int", "str": "Str", "list": "List", "inst": "Inst", "float": "Float"}[kind_], mode_))
        ctx.label("traits-re-added-on-the-instance")
    if case.get("churn"):
        # a handler and an observer that come and go on EVERY trait before the history starts: the traits that had no
        # handler of their own now have an (empty) notifier list of their own
        def tmp_handler():
            log.append(("tmp", "?", None, None))

        def tmp_observer(e):
            log.append(("tmp", e.name, None, None))
        for nm in NAMES:
            o.on_trait_change(tmp_handler, nm)
            o.observe(tmp_observer, nm)
        for nm in NAMES:
            o.on_trait_change(tmp_handler, nm, remove=True)
            o.observe(tmp_observer, nm, remove=True)
        ctx.label("handlers-added-and-removed-again")

    def obs_any(e):
        if e.name in NAMES:
            log.append(("obsany", e.name, e.old, e.new))
    wild = bool(case.get("wildcard_observer"))
    if wild:
        o.observe(obs_any, "*")          # an observer matching EVERY trait of the object
        ctx.label("wildcard-observer")
    ol = case.get("object_level")
    ol_state = {"first_alive": True}
    if ol:
        def ol_first(obj, name, old, new):
            if name in NAMES:
                log.append(("ol1", name, old, new))
                if ol != "plain" and ol_state["first_alive"]:
                    ol_state["first_alive"] = False
                    obj.on_trait_change(ol_first, remove=True)
                    if ol == "oneshot-raising":
                        raise RuntimeError("boom")

        def ol_second(obj, name, old, new):
            if name in NAMES:
                log.append(("ol2", name, old, new))
        o.on_trait_change(ol_first)
        o.on_trait_change(ol_second)
        ctx.label("object-level:" + ol)
    push_exception_handler(handler=lambda *a: None, reraise_exceptions=False, main=True)
    obs_push(handler=lambda e: None, reraise_exceptions=False)
    interesting = bool(raisers) or bool(ol)
    if raisers:
        ctx.label("raising-handler")
    try:
        for (ni, op, vi) in case["ops"]:
            nm = NAMES[ni]
            kind, mode = nm.split("_")
            typed_event = kind == "cevent"
            if typed_event:
                kind = "event"
            del log[:]
            if op == "read":
                if kind == "event":
                    continue
                first = nm not in o.__dict__
                v = getattr(o, nm)
                if log:
                    ctx.fail("read/notified", "reading %s notified %r" % (nm, log))
                if getattr(o, nm) is not v:
                    ctx.fail("read/unstable", "two reads of %s give different objects" % nm)
                if first:
                    interesting = True
                    ctx.label("default-read")
                continue
            v = POOL[vi]
            if kind != "event":
                before = getattr(o, nm)     # readable-before (materialises the default)
                if log:
                    ctx.fail("read/notified", "default read of %s notified %r" % (nm, log))
            else:
                before = Undefined
            quiet = op in ("setq", "setq_kw")
            alive_before = ol_state["first_alive"]
            try:
                if op == "set":
                    setattr(o, nm, v)
                elif op == "setq":
                    o.trait_setq(**{nm: v})
                else:
                    o.trait_set(trait_change_notify=False, **{nm: v})
                rejected = False
            except TraitError:
                rejected = True
            except Exception as e:
                ctx.fail("assign/raised", "%s = %r (%s) raised %r (was %r); handlers called: %r"
                         % (nm, v, op, e, before, [(m, n) for m, n, _, _ in log]))
            what = "%s %s %r (before %r), raisers=%s" % (op, nm, v, before, sorted(raisers))
            if rejected:
                interesting = True
                ctx.label("rejected" + ("-quiet" if quiet else ""))
                if log:
                    ctx.fail("rejected/notified", "rejected assignment notified %r: %s" % (log, what))
                if kind != "event" and getattr(o, nm) is not before:
                    ctx.fail("rejected/changed", "rejected assignment changed the value: %s" % what)
                continue
            after = getattr(o, nm) if kind != "event" else None
            by = {}
            for (mech, n2, old, new) in log:
                if n2 != nm:
                    ctx.fail("event/wrong-name", "handler called for %s while assigning %s" % (n2, nm))
                by.setdefault(mech, []).append((old, new))
            first_was_alive = alive_before if ol else False
            ol1 = len(by.pop("ol1", []))
            ol2 = len(by.pop("ol2", []))
            mechs = () if (bare and nm in BARE) else ("static", "otc", "obs") if bare else ("static", "any", "otc", "obs")
            if magic and nm in MAGIC:
                mechs = tuple("magic" if m == "static" else m for m in mechs)
            if nm in BOTH and "static" in mechs:
                mechs = mechs + ("static2",)
            if wild:
                mechs = mechs + ("obsany",)
            if set(by) - set(mechs):
                ctx.fail("count/unregistered-mechanism", "handlers %r were called but are not registered for %s: %s" % (sorted(by), nm, what))
            counts = {m: len(by.get(m, [])) for m in mechs}
            if quiet:
                interesting = True
                ctx.label("quiet-set")
                if any(counts.values()):
                    ctx.fail("quiet/notified", "quiet set notified %r: %s" % (counts, what))
                continue
            if kind == "event" or mode == "n":
                exp = 1
            elif mode == "i":
                exp = 1 if after is not before else 0
            else:
                if after is before:
                    exp = 0
                else:
                    try:
                        exp = 0 if (before == after) else 1
                        ne = bool(before != after)
                        if ne != bool(exp):
                            exp = None
                    except Exception:
                        exp = None
                    if exp is None:
                        ctx.label("comparison-undecided")
                    elif exp == 0:
                        interesting = True
                        ctx.label("equal-not-identical")
            if exp is None:
                if len(set(counts.values())) > 1:
                    ctx.fail("count/mechanisms-disagree", "%r: %s" % (counts, what))
            elif any(c != exp for c in counts.values()):
                ctx.fail("count/wrong", "expected %d call(s) per handler, got %r: %s (after %r)" % (exp, counts, what, after))
            if ol and exp is not None and not quiet:
                # handlers registered when the change happened are each called once, also when one of them
                # un-registers itself (or raises) while being dispatched
                want1 = exp if (ol == "plain" or log_has_first_alive(log, ol_state, first_was_alive)) else 0
                if ol2 != exp:
                    ctx.fail("count/object-level", "second object-level handler called %d time(s), expected %d (first handler %s): %s"
                             % (ol2, exp, ol, what))
                if ol1 != want1:
                    ctx.fail("count/object-level", "first object-level handler called %d time(s), expected %d: %s" % (ol1, want1, what))
            for m, lst in by.items():
                for (old, new) in lst:
                    if kind == "event" and typed_event:
                        if not (old is Undefined and type(new) is int and new == int(v)):
                            ctx.fail("event/old-new", "%s handler got old=%r new=%r (%s) for the typed event fired with %r: the "
                                     "validated value is %r" % (m, old, new, type(new).__name__, v, int(v)))
                    elif kind == "event":
                        if not (old is Undefined and new is v):
                            ctx.fail("event/old-new", "%s handler got old=%r new=%r for event fired with %r" % (m, old, new, v))
                    elif not (old is before and new is after):
                        ctx.fail("event/old-new", "%s handler got old=%r new=%r; readable before %r, after %r: %s"
                                 % (m, old, new, before, after, what))
    finally:
        pop_exception_handler()
        obs_pop()
    if interesting:
        ctx.nontrivial()


def stages(tier):
    return [{"name": "hist", "kind": "hyp", "strategy": strategy, "run": run,
             "examples": {"quick": 30000, "thorough": 400000}, "shards": 16}]
