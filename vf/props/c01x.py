"""C01 (continued) — the trait types the lattice of vf.lattice does not model: numeric arrays (dtype / shape /
casting), dates and times, UUID, Constant, ValidatedTuple, File / Directory (exists), Expression (mapped shadow),
WeakRef, coercing containers, dynamic (name-bounded) Range and Enum, and the Base*/alias classes whose criteria
equal those of a lattice configuration.

Every kind states its DOCUMENTED criteria as `expect(cfg, value, env)`:
    ("rej",)                      the value lies outside the domain: TraitError naming the attribute, nothing changes
    ("acc", check)                accepted; check(stored, obj) returns None or a complaint
    ("dom", check)                the documentation is silent on whether this value is accepted; IF it is, `check` holds
The numpy conversions themselves (asarray / astype) are taken from numpy: the oracle is the trait's own contract
(which values, which dtype, which shape, which casting rule, which route), not numpy's arithmetic.
"""
import collections
import datetime
import os
import pathlib
import uuid
import warnings

import numpy as np
from hypothesis import strategies as st

import traits.api as T
from traits.trait_errors import TraitError
from vf import lattice as L
from vf import values as V

HERE = os.path.abspath(__file__)
HEREDIR = os.path.dirname(HERE)


class PathStr:
    def __init__(self, p):
        self.p = p

    def __fspath__(self):
        return self.p


class MyDatetime(datetime.datetime):
    """A strict subclass of datetime (pandas.Timestamp style): still a datetime, so not a valid plain Date."""


class MyTime(datetime.time):
    pass


class MyDate(datetime.date):
    pass


class KeepAlive:
    """WeakRef values must stay alive for the read-back."""
    objs = []


def _keep(o):
    KeepAlive.objs.append(o)
    del KeepAlive.objs[:-50]
    return o


XV = collections.OrderedDict([
    # ---- arrays
    ("X:i64[3]", lambda: np.array([1, 2, 3], dtype="int64")), ("X:i32[3]", lambda: np.array([1, 2, 3], dtype="int32")),
    ("X:f64[3]", lambda: np.array([0.5, 1.5, np.nan])), ("X:f32[3]", lambda: np.array([0.5, 1.5, 2.5], dtype="float32")),
    ("X:f64[3]int", lambda: np.array([1.0, 2.0, 3.0])),
    ("X:bool[3]", lambda: np.array([True, False, True])), ("X:c128[3]", lambda: np.array([1j, 2, 3])),
    ("X:u8[3]", lambda: np.array([1, 2, 255], dtype="uint8")), ("X:U1[3]", lambda: np.array(["a", "b", "c"])),
    ("X:U3[2]", lambda: np.array(["abc", "de"])), ("X:obj[3]", lambda: np.array([1, "a", None], dtype=object)),
    ("X:i64[0]", lambda: np.array([], dtype="int64")), ("X:f64[1]", lambda: np.array([7.0])),
    ("X:f64[2]", lambda: np.array([7.0, 8.0])), ("X:f64[4]", lambda: np.array([1.0, 2.0, 3.0, 4.0])),
    ("X:f64[2,2]", lambda: np.array([[1.0, 2.0], [3.0, 4.0]])), ("X:i64[2,3]", lambda: np.arange(6).reshape(2, 3)),
    ("X:i64[3,2]", lambda: np.arange(6).reshape(3, 2)), ("X:i64[1,2]", lambda: np.arange(2).reshape(1, 2)),
    ("X:i64[4,2]", lambda: np.arange(8).reshape(4, 2)), ("X:i64[2,1]", lambda: np.arange(2).reshape(2, 1)),
    ("X:i64[2,2,2]", lambda: np.arange(8).reshape(2, 2, 2)), ("X:0d-int", lambda: np.array(5)), ("X:0d-float", lambda: np.array(0.5)),
    ("X:strided", lambda: np.arange(6)[::2]), ("X:f64-be[3]", lambda: np.array([1.0, 2.0, 3.0], dtype=">f8")),
    ("X:fortran[2,3]", lambda: np.asfortranarray(np.arange(6.0).reshape(2, 3))),
    ("X:big-i64[3]", lambda: np.array([2 ** 40, 1, 2])), ("X:neg-i64[3]", lambda: np.array([-1, 1, 2])),
    ("X:list[3]", lambda: [1, 2, 3]), ("X:tuple[3]", lambda: (1.5, 2, 3)), ("X:list[2,2]", lambda: [[1, 2], [3, 4]]),
    ("X:ragged", lambda: [[1, 2], [3]]), ("X:list-str", lambda: ["a", "b", "c"]), ("X:list-numstr", lambda: ["1", "2", "3"]),
    ("X:list-none", lambda: [1, None, 3]), ("X:list-empty", lambda: []), ("X:list-bool", lambda: [True, False, True]),
    ("X:list-cplx", lambda: [1j, 2, 3]), ("X:list-big", lambda: [2 ** 70, 1, 2]), ("X:list[2,3]", lambda: [[1, 2, 3], [4, 5, 6]]),
    ("X:range3", lambda: range(3)), ("X:np.float64", lambda: np.float64(1.5)), ("X:memoryview", lambda: memoryview(b"abc")),
    # ---- dates and times
    ("X:date", lambda: datetime.date(2020, 1, 2)), ("X:datetime", lambda: datetime.datetime(2020, 1, 2, 3, 4)),
    ("X:time", lambda: datetime.time(1, 2, 3)), ("X:mydate", lambda: MyDate(2020, 1, 2)),
    ("X:mydatetime", lambda: MyDatetime(2020, 1, 2, 3, 4)), ("X:mytime", lambda: MyTime(1, 2, 3)),
    ("X:timedelta", lambda: datetime.timedelta(1)), ("X:datestr", lambda: "2020-01-02"),
    ("X:np.datetime64", lambda: np.datetime64("2020-01-02")), ("X:aware-datetime",
                                                                lambda: datetime.datetime(2020, 1, 2, tzinfo=datetime.timezone.utc)),
    # ---- uuid
    ("X:uuid", lambda: uuid.UUID("12345678123456781234567812345678")), ("X:uuidstr", lambda: "12345678-1234-5678-1234-567812345678"),
    ("X:uuidhex", lambda: "12345678123456781234567812345678"), ("X:baduuid", lambda: "1234"), ("X:uuidbytes", lambda: b"\x12" * 16),
    # ---- paths
    ("X:file", lambda: HERE), ("X:dir", lambda: HEREDIR), ("X:nofile", lambda: os.path.join(HEREDIR, "no-such-file-xyz")),
    ("X:Path(file)", lambda: pathlib.Path(HERE)), ("X:Path(dir)", lambda: pathlib.Path(HEREDIR)),
    ("X:Path(nofile)", lambda: pathlib.Path(HEREDIR) / "no-such"), ("X:PathStr(file)", lambda: PathStr(HERE)),
    ("X:PathStr(bytes)", lambda: PathStr(HERE.encode())), ("X:bytes-path", lambda: HERE.encode()),
    ("X:dir/", lambda: HEREDIR + os.sep),
    # ---- expressions
    ("X:expr", lambda: "1 + a"), ("X:badexpr", lambda: "1 +"), ("X:stmt", lambda: "a = 1"), ("X:expr-nul", lambda: "1\0"),
    ("X:expr-bytes", lambda: b"1 + 1"), ("X:expr-ws", lambda: "  2"),
    # ---- tuples for ValidatedTuple
    ("X:(1,2)", lambda: (1, 2)), ("X:(2,1)", lambda: (2, 1)), ("X:(1,1)", lambda: (1, 1)), ("X:[1,2]", lambda: [1, 2]),
    ("X:(1,2,3)", lambda: (1, 2, 3)), ("X:(1.0,2)", lambda: (1.0, 2)), ("X:(True,2)", lambda: (True, 2)),
    # ---- instances for WeakRef
    ("X:Foo()", lambda: _keep(L.Foo())), ("X:Bar()", lambda: _keep(L.Bar())), ("X:Other()", lambda: _keep(L.Other())),
    # ---- numbers for the dynamic ranges
    ("X:2.7", lambda: 2.7), ("X:5.0", lambda: 5.0), ("X:4.999", lambda: 4.999), ("X:6", lambda: 6), ("X:1.0", lambda: 1.0),
])
V.SPECIAL.update(XV)


def all_x_values():
    return [{"x": n} for n in XV] + [e for e, _ in L.all_values()]


# ----------------------------------------------------------------------------- array kinds
DTYPES = [None, "int32", "int64", "float32", "float64", "bool", "complex128", "uint8", "<U2"]
SHAPES = [None, [3], [None], [[1, 3]], [[2, None]], [2, None], [[1, 2], 2], [None, None], []]
CASTINGS = ["unsafe", "safe", "same_kind", "equiv", "no"]
ACLASSES = ["Array", "CArray", "ArrayOrNone"]


def shape_ok(trait_shape, s):
    if trait_shape is None:
        return True
    if len(trait_shape) != len(s):
        return False
    for item, dim in zip(trait_shape, s):
        if item is None:
            continue
        if isinstance(item, int):
            if dim != item:
                return False
        else:
            lo, hi = item
            if dim < lo or (hi is not None and dim > hi):
                return False
    return True


def arr_same(a, b):
    if not (isinstance(a, np.ndarray) and isinstance(b, np.ndarray)):
        return False
    if a.dtype != b.dtype or a.shape != b.shape:
        return False
    if a.dtype.kind in "OUS":
        return a.tolist() == b.tolist()
    with warnings.catch_warnings():
        warnings.simplefilter("ignore")
        return bool(np.array_equal(a, b, equal_nan=a.dtype.kind in "fc"))


def array_expect(cfg, v, env):
    cls, dtype, shape, casting = cfg["cls"], cfg["dtype"], cfg["shape"], cfg["casting"]
    dt = None if dtype is None else np.dtype(dtype)
    if v is None:
        if cls == "ArrayOrNone":
            return ("acc", lambda x, o: None if x is None else "stored %r, None was assigned" % (x,))
        return ("rej",)
    with warnings.catch_warnings():
        warnings.simplefilter("ignore")
        if isinstance(v, np.ndarray):
            conv = v
            if dt is not None and v.dtype != dt:
                # "casting: a value can only be assigned if it passes the casting rule"
                if not np.can_cast(v.dtype, dt, casting=casting):
                    return ("rej",)
                try:
                    conv = v.astype(dt, casting=casting)
                except Exception:
                    return ("rej",)
        elif type(v) in (list, tuple):
            # "automatically casts tuples and lists of the right shape to the specified dtype (just like numpy's array does)"
            try:
                conv = np.asarray(v, dt) if dt is not None else np.asarray(v)
            except Exception:
                return ("rej",)
        elif isinstance(v, (list, tuple)):
            return ("dom", lambda x, o: array_domain(cfg, x))
        else:
            return ("rej",)
    if not shape_ok(shape_tuple(shape), conv.shape):
        return ("rej",)

    def check(x, o, conv=conv):
        d = array_domain(cfg, x)
        if d:
            return d
        if not arr_same(x, conv):
            return "stored %r (%s), the documented conversion is %r (%s)" % (x, getattr(x, "dtype", None), conv, conv.dtype)
    return ("acc", check)


def shape_tuple(shape):
    if shape is None:
        return None
    return tuple(tuple(i) if isinstance(i, list) else i for i in shape)


def array_domain(cfg, x):
    if x is None and cfg["cls"] == "ArrayOrNone":
        return None
    if not isinstance(x, np.ndarray):
        return "stored %r is not an array" % (x,)
    if cfg["dtype"] is not None and x.dtype != np.dtype(cfg["dtype"]):
        return "stored array has dtype %s, declared %s" % (x.dtype, cfg["dtype"])
    if not shape_ok(shape_tuple(cfg["shape"]), x.shape):
        return "stored array has shape %r, declared %r" % (x.shape, cfg["shape"])
    return None


def array_build(cfg):
    kw = {}
    if cfg["casting"] != "unsafe":
        kw["casting"] = cfg["casting"]
    cls = getattr(T, cfg["cls"])
    return {"x": cls(dtype=None if cfg["dtype"] is None else np.dtype(cfg["dtype"]), shape=shape_tuple(cfg["shape"]), **kw)}


# ----------------------------------------------------------------------------- the other kinds
def same(v):
    return ("acc", lambda x, o: None if x is v else "stored %r is not the assigned object %r" % (x, v))


def date_expect(cfg, v, env):
    k = cfg["cls"]
    if v is None:
        return same(v) if cfg.get("allow_none") else ("rej",)
    if k == "Date":
        if isinstance(v, datetime.datetime):
            return same(v) if cfg.get("allow_datetime") else ("rej",)
        return same(v) if isinstance(v, datetime.date) else ("rej",)
    if k == "Datetime":
        return same(v) if isinstance(v, datetime.datetime) else ("rej",)
    return same(v) if isinstance(v, datetime.time) else ("rej",)


def date_build(cfg):
    kw = {"allow_none": bool(cfg.get("allow_none"))}
    if cfg["cls"] == "Date":
        kw["allow_datetime"] = bool(cfg.get("allow_datetime"))
    return {"x": getattr(T, cfg["cls"])(**kw)}


def uuid_expect(cfg, v, env):
    # "A read-only trait type"; can_init=True "allows the UUID value to be set during object instantiation"
    if not cfg["can_init"] or env["route"] != "ctor":
        return ("rej",)
    if isinstance(v, uuid.UUID):
        return ("acc", lambda x, o: None if x == v and isinstance(x, uuid.UUID) else "stored %r" % (x,))
    if isinstance(v, str):
        try:
            u = uuid.UUID(v)
        except ValueError:
            return ("rej",)
        return ("acc", lambda x, o: None if x == u and isinstance(x, uuid.UUID) else "stored %r, expected %r" % (x, u))
    return ("rej",)


def uuid_domain(x):
    return None if isinstance(x, uuid.UUID) else "reads %r, not a UUID" % (x,)


def vtuple_expect(cfg, v, env):
    r = L.ref(["Tuple", [["Int"], ["Int"]]], v, env["owner"])
    if r[0] == L.REJ:
        return ("rej",)
    if r[0] != L.ACC:
        return ("dom", lambda x, o: None if isinstance(x, tuple) and len(x) == 2 and x[0] <= x[1] else "stored %r" % (x,))
    t = r[1]
    if not (t[0] <= t[1]):
        return ("rej",)          # "will accept only tuples (a, b) ... that satisfy" the predicate
    return ("acc", lambda x, o: None if L.eq(x, t) else "stored %r, expected %r" % (x, t))


def path_expect(cfg, v, env):
    # "accept both strings and os.PathLike objects, converting the latter to the corresponding string value";
    # exists: "the trait value must be an existing file / directory"
    s = v
    if not isinstance(v, str):
        if isinstance(v, bytes) or not hasattr(type(v), "__fspath__"):
            return ("rej",)
        try:
            s = os.fspath(v)
        except TypeError:
            return ("rej",)
        if not isinstance(s, str):
            return ("rej",)
    if type(s) is not str:
        # str subclasses: Str semantics (accepted as they are)
        pass
    if cfg["exists"]:
        ok = os.path.isfile(s) if cfg["cls"].endswith("File") else os.path.isdir(s)
        if not ok:
            return ("rej",)
    return ("acc", lambda x, o: None if isinstance(x, str) and x == s else "stored %r, expected the string %r" % (x, s))


def expression_expect(cfg, v, env):
    try:
        with warnings.catch_warnings():
            warnings.simplefilter("ignore")
            compile(v, "<string>", "eval")
    except BaseException:
        return ("rej",)

    def check(x, o):
        if x is not v and x != v:
            return "stored %r, assigned %r" % (x, v)
        code = o.__dict__.get("x_")
        if not hasattr(code, "co_code"):
            return "the mapped shadow x_ is %r, not the compiled expression" % (code,)
    return ("acc", check)


def weakref_expect(cfg, v, env):
    if v is None:
        return same(v) if cfg["allow_none"] else ("rej",)
    return same(v) if isinstance(v, L.Foo) else ("rej",)


def any_expect(cfg, v, env):
    return same(v)


def constant_expect(cfg, v, env):
    return ("rej",)


def clist_expect(cfg, v, env):
    item_ok = lambda i: type(i) is int or (isinstance(i, int) and not isinstance(i, bool)) or True
    want = list if cfg["cls"] == "CList" else set

    def dom(x, o):
        if not isinstance(x, want):
            return "stored %r is not a %s" % (x, want.__name__)
        bad = [i for i in x if not isinstance(L.ref(["Int"], i, None), tuple) or L.ref(["Int"], i, None)[0] == L.REJ]
        if bad:
            return "stored container holds %r, not integers" % (bad,)
    if isinstance(v, want):
        r = L.ref(["List", ["Int"], 0, None], list(v), env["owner"]) if want is list else None
        if r is not None and r[0] == L.REJ:
            return ("rej",)
        if r is not None and r[0] == L.ACC:
            return ("acc", lambda x, o: dom(x, o) or (None if list(x) == list(r[1]) else "stored %r, expected %r" % (x, r[1])))
    return ("dom", dom)


def dynrange_expect(cfg, v, env):
    lo, hi = env["lo"], env["hi"]

    def dom(x, o):
        okl = (lo < x) if cfg["xl"] else (lo <= x)
        okh = (x < hi) if cfg["xh"] else (x <= hi)
        if not (okl and okh):
            return "stored %r lies outside %s%r, %r%s" % (x, "(" if cfg["xl"] else "[", lo, hi, ")" if cfg["xh"] else "]")
        if type(x) is not type(lo):
            return "stored %r (%s), the range is over %s" % (x, type(x).__name__, type(lo).__name__)
    if isinstance(v, str):
        return ("rej",)
    if type(v) is type(lo) and not isinstance(v, bool):
        okl = (lo < v) if cfg["xl"] else (lo <= v)
        okh = (v < hi) if cfg["xh"] else (v <= hi)
        if okl and okh:
            return ("acc", lambda x, o: dom(x, o) or (None if x == v else "stored %r, assigned %r" % (x, v)))
        return ("rej",)
    return ("dom", dom)


def dynenum_expect(cfg, v, env):
    vals = env["vals"]
    inside = any(v is i or (type(v) is type(i) and bool(v == i)) for i in vals)
    loosely = v in vals          # (may raise what the value's own comparison raises: the caller allows that class)
    if inside:
        return ("acc", lambda x, o: None if (x is v or x == v) else "stored %r, assigned %r" % (x, v))
    if not loosely:
        return ("rej",)
    return ("dom", lambda x, o: None if any(bool(x == i) for i in vals) else "stored %r is not a member of %r" % (x, vals))


def plain(v):
    """Trait containers compare as their builtin counterparts."""
    from traits.trait_list_object import TraitList
    from traits.trait_dict_object import TraitDict
    from traits.trait_set_object import TraitSet
    if isinstance(v, TraitList):
        return [plain(i) for i in v]
    if isinstance(v, TraitDict):
        return {k: plain(w) for k, w in v.items()}
    if isinstance(v, TraitSet):
        return set(v)
    if type(v) is tuple:
        return tuple(plain(i) for i in v)
    return v


def lattice_expect(spec):
    def expect(cfg, v, env):
        if L.hazardous(spec, v):
            return ("dom", lambda x, o: None)
        r = L.ref(spec, v, env["owner"])          # (may raise what the value's own protocol raises: the caller allows that class)
        if r[0] == L.REJ:
            return ("rej",)
        if r[0] == L.ACC:
            return ("acc", lambda x, o: None if (L.eq(plain(x), r[1]) or x is r[1]) else "stored %r (%s), documented conversion %r (%s)"
                    % (x, type(x).__name__, r[1], type(r[1]).__name__))
        return ("dom", lambda x, o: None if L.in_domain(spec, plain(x), env["owner"]) is not False else "stored %r lies outside the domain" % (x,))
    return expect


ALIASES = collections.OrderedDict([
    ("BaseCInt", (lambda: T.BaseCInt(), ["CInt"])), ("BaseCFloat", (lambda: T.BaseCFloat(), ["CFloat"])),
    ("BaseCComplex", (lambda: T.BaseCComplex(), ["CComplex"])), ("BaseCStr", (lambda: T.BaseCStr(), ["CStr"])),
    ("BaseCBool", (lambda: T.BaseCBool(), ["CBool"])),
    ("Unicode", (lambda: T.Unicode(), ["Str"])), ("BaseUnicode", (lambda: T.BaseUnicode(), ["BaseStr"])),
    ("CUnicode", (lambda: T.CUnicode(), ["CStr"])), ("BaseCUnicode", (lambda: T.BaseCUnicode(), ["CStr"])),
    ("Title", (lambda: T.Title(), ["Str"])), ("Password", (lambda: T.Password(), ["String", 0, None, ""])),
    ("HTML", (lambda: T.HTML(), ["String", 0, None, ""])), ("Code", (lambda: T.Code(), ["String", 0, None, ""])),
    ("Regex(^a)", (lambda: T.Regex(regex="^a"), ["String", 0, None, "^a"])),
    ("Password(minlen=3)", (lambda: T.Password(minlen=3), ["String", 3, None, ""])),
    ("BaseEnum", (lambda: T.BaseEnum(1, 2, "a", None), ["Enum", [1, 2, "a", None]])),
    ("BaseTuple", (lambda: T.BaseTuple(T.Int, T.Str), ["Tuple", [["Int"], ["Str"]]])),
    ("BaseInstance", (lambda: T.BaseInstance(L.Foo), ["Instance", "Foo", True, None])),
    ("BaseInstance-nonone", (lambda: T.BaseInstance(L.Foo, allow_none=False), ["Instance", "Foo", False, None])),
    ("BaseCallable", (lambda: T.BaseCallable(), ["Callable", True])),
    ("Subclass", (lambda: T.Subclass(L.Foo), ["Type", "Foo", True])),
    ("Subclass-nonone", (lambda: T.Subclass(L.Foo, allow_none=False), ["Type", "Foo", False])),
    ("Enum-positional", (lambda: T.Enum(1, 2, "a", None), ["Enum", [1, 2, "a", None]])),
    ("Enum-tuple", (lambda: T.Enum((1, 2, "a", None)), ["Enum", [1, 2, "a", None]])),
    ("Range-value", (lambda: T.Range(0, 3, 2), ["Range", 0, 3, False, False])),
    ("Range-float-value", (lambda: T.Range(0.0, 1.0, 0.5), ["Range", 0.0, 1.0, False, False])),
    ("Float-default", (lambda: T.Float(2.5), ["Float"])), ("Int-default", (lambda: T.Int(7), ["Int"])),
    ("List-of-class", (lambda: T.List(T.Int), ["List", ["Int"], 0, None])),
])


VPROP_INNER = [["Float"], ["Int"], ["CInt"], ["CStr"], ["Bool"], ["Range", 0.0, 1.0, False, True], ["Range", 0, 3, True, False],
               ["PrefixList", ["yes", "no", "yeah"]], ["Tuple", [["Float"], ["Str"]]], ["Enum", [1, 2, "a", None]],
               ["List", ["Int"], 0, None], ["Instance", "Foo", False, None], ["Either", [["Int"], ["Str"]]],
               ["String", 1, 3, ""]]


def vprop_attrs(inner):
    def _get_x(self):
        return self.__dict__.get("_x")

    def _set_x(self, v):
        self.__dict__["_x"] = v
    return {"x": T.Property(L.build(inner)), "_get_x": _get_x, "_set_x": _set_x}


def configs():
    out = []
    for cls in ACLASSES:
        for dt in DTYPES:
            for sh in SHAPES:
                for ca in (CASTINGS if dt is not None else ["unsafe"]):
                    out.append({"kind": "array", "cls": cls, "dtype": dt, "shape": sh, "casting": ca})
    for an in (False, True):
        for ad in (False, True):
            out.append({"kind": "date", "cls": "Date", "allow_none": an, "allow_datetime": ad})
        out.append({"kind": "date", "cls": "Datetime", "allow_none": an})
        out.append({"kind": "date", "cls": "Time", "allow_none": an})
    out += [{"kind": "uuid", "can_init": False}, {"kind": "uuid", "can_init": True}]
    out += [{"kind": "vtuple"}, {"kind": "constant"}, {"kind": "any", "cls": "Any"}, {"kind": "any", "cls": "PythonValue"},
            {"kind": "expression"}]
    for cls in ("File", "BaseFile", "Directory", "BaseDirectory"):
        for ex in (False, True):
            out.append({"kind": "path", "cls": cls, "exists": ex})
    out += [{"kind": "weakref", "allow_none": False}, {"kind": "weakref", "allow_none": True}]
    out += [{"kind": "clist", "cls": "CList"}, {"kind": "clist", "cls": "CSet"}]
    for base in ("int", "float"):
        for xl in (False, True):
            for xh in (False, True):
                out.append({"kind": "dynrange", "base": base, "xl": xl, "xh": xh})
    out.append({"kind": "dynenum"})
    out += [{"kind": "alias", "name": n} for n in ALIASES]
    # a Property declared WITH a trait and a setter: "assignments are validated by the trait", the setter receives the
    # validated (converted) value
    for inner in VPROP_INNER:
        out.append({"kind": "vprop", "inner": inner})
    return out


def attrs_for(cfg):
    k = cfg["kind"]
    if k == "array":
        return array_build(cfg)
    if k == "date":
        return date_build(cfg)
    if k == "uuid":
        return {"x": T.UUID(can_init=cfg["can_init"])}
    if k == "vtuple":
        return {"x": T.ValidatedTuple(T.Int, T.Int, fvalidate=lambda t: t[0] <= t[1], fvalidate_info="a <= b")}
    if k == "constant":
        return {"x": T.Constant(42)}
    if k == "any":
        return {"x": getattr(T, cfg["cls"])()}
    if k == "expression":
        return {"x": T.Expression()}
    if k == "path":
        return {"x": getattr(T, cfg["cls"])(exists=cfg["exists"])}
    if k == "weakref":
        return {"x": T.WeakRef(L.Foo, allow_none=cfg["allow_none"])}
    if k == "clist":
        return {"x": getattr(T, cfg["cls"])(T.Int)}
    if k == "dynrange":
        lo, hi = (1, 5) if cfg["base"] == "int" else (0.5, 2.5)
        bt = T.Int if cfg["base"] == "int" else T.Float
        return {"lo": bt(lo), "hi": bt(hi), "x": T.Range(low="lo", high="hi", exclude_low=cfg["xl"], exclude_high=cfg["xh"])}
    if k == "dynenum":
        return {"vals": T.List([1, 2, "a", None, (1, 2)]), "x": T.Enum(values="vals")}
    if k == "alias":
        return {"x": ALIASES[cfg["name"]][0]()}
    if k == "vprop":
        return vprop_attrs(cfg["inner"])
    raise AssertionError(k)


EXPECT = {"array": array_expect, "date": date_expect, "uuid": uuid_expect, "vtuple": vtuple_expect, "constant": constant_expect,
          "any": any_expect, "expression": expression_expect, "path": path_expect, "weakref": weakref_expect,
          "clist": clist_expect, "dynrange": dynrange_expect, "dynenum": dynenum_expect}

ROUTES = ["setattr", "trait_set", "trait_setq", "ctor"]


def cfg_id(cfg):
    import json
    return json.dumps(cfg, sort_keys=True, separators=(",", ":"))


def snap(o):
    return sorted((k, id(v), repr(v) if not isinstance(v, np.ndarray) else v.tobytes()) for k, v in o.__dict__.items())


def run_seq(cfg, route, vals, ctx):
    """Drive one object through the values; returns None or (index, bucket, message)."""
    ns = attrs_for(cfg)
    ns.update(other=T.Int(5), tag=T.Str("t"))
    cls = type("Owner", (T.HasTraits,), ns)
    obj = cls()
    obj.other, obj.tag = 7, "u"
    expect = EXPECT.get(cfg["kind"]) or lattice_expect(cfg["inner"] if cfg["kind"] == "vprop" else ALIASES[cfg["name"]][1])
    cid = cfg_id(cfg)
    for i, enc in enumerate(vals):
        v = V.dec(enc)
        env = {"route": route, "owner": cls}
        if cfg["kind"] == "dynrange":
            env["lo"], env["hi"] = obj.lo, obj.hi
        if cfg["kind"] == "dynenum":
            env["vals"] = list(obj.vals)
        with warnings.catch_warnings():
            warnings.simplefilter("ignore")
            rexc = None
            try:
                exp = expect(cfg, v, env)
            except RecursionError:
                raise
            except Exception as e:
                # the documented criterion itself cannot be evaluated for this value (its own comparison / conversion
                # protocol raises): the same exception class may surface, and only "no effect on failure" is judged
                rexc = e
                exp = ("dom", lambda x, o: None)
            try:
                xb = obj.x
                readable = True
            except Exception:
                xb, readable = None, False
            before = snap(obj)
            old = obj
            try:
                if route == "setattr":
                    obj.x = v
                elif route == "trait_set":
                    obj.trait_set(x=v)
                elif route == "trait_setq":
                    obj.trait_setq(x=v)
                else:
                    n = cls(x=v)
                    n.other, n.tag = 7, "u"
                    obj = n
                out = ("ok",)
            except TraitError as e:
                out = ("TE", e)
            except RecursionError:
                raise
            except Exception as e:
                out = ("EXC", e)
            where = "%s route=%s value=%s (%r)" % (cid, route, enc, v)
            ctx.label({"ok": "accepted", "TE": "rejected-TraitError", "EXC": "other-exception"}[out[0]])
            ctx.label("kind:" + cfg["kind"])
            ctx.nontrivial(key=[cid, route, enc], sample={"cfg": cfg, "route": route, "val": enc})
            if out[0] == "ok":
                if exp[0] == "rej":
                    return i, "reference/accepted-outside-domain", "%s: accepted (stored %r) but the value lies outside the documented domain" % (where, obj.x)
                msg = exp[1](obj.x, obj)
                if msg:
                    return i, ("reference/stored-value" if exp[0] == "acc" else "domain/outside"), "%s: %s" % (where, msg)
                if cfg["kind"] == "uuid" and uuid_domain(obj.x):
                    return i, "domain/outside", "%s: %s" % (where, uuid_domain(obj.x))
                if route != "ctor" and (obj.other != 7 or obj.tag != "u"):
                    return i, "effects/other-attribute", "%s: other attributes changed" % where
                if cfg["kind"] == "dynenum" and route != "ctor":
                    # the collection is read at assignment time: once the value just stored is no longer a member,
                    # assigning the very same value again is a rejection
                    keep = list(obj.vals)
                    rest = [m for m in keep if not (m is v or (type(m) is type(v) and m == v))]
                    if len(rest) < len(keep) and rest:
                        obj.vals = rest
                        try:
                            obj.x = v
                            again = "accepted"
                        except TraitError:
                            again = "rejected"
                        except Exception as e:
                            again = "raised %r" % (e,)
                        obj.vals = keep
                        ctx.label("dynenum-collection-shrunk")
                        if again != "rejected":
                            return i, "reference/accepted-outside-domain", "%s: after the collection shrank to %r the same value was %s again" \
                                % (where, rest, again)
                        obj.x = v
                continue
            if obj is not old or snap(obj) != before:
                return i, "effects/changed-on-failure", "%s: raised %r but the object's state changed" % (where, out[1])
            if readable:
                xa = obj.x
                if xa is not xb and not (isinstance(xa, np.ndarray) and arr_same(xa, xb)) and xa != xb:
                    return i, "effects/changed-on-failure", "%s: raised %r but x reads %r, was %r" % (where, out[1], xa, xb)
            if out[0] == "TE":
                if "x" not in str(out[1]) or ("'x'" not in str(out[1]) and route != "ctor"):
                    return i, "rejection/message", "%s: TraitError does not name the attribute: %s" % (where, out[1])
                if exp[0] == "acc":
                    return i, "reference/rejected-inside-domain", "%s: rejected (%s) but the value lies inside the documented domain" % (where, out[1])
                continue
            from vf.props import c01 as C1
            allowed = C1.protocol_exceptions(v)
            if L.may_overflow(v):
                allowed.add(OverflowError)
            if rexc is not None:
                allowed.add(type(rexc))
            if isinstance(v, L.BadEq):
                allowed.add(RuntimeError)        # the value's own __eq__ raises; whoever compares it sees that
            if (isinstance(v, np.ndarray) and v.size != 1) or isinstance(v, np.generic):
                # numpy's own comparison protocol: == against a sequence is element-wise and its truth value "ambiguous"
                # (membership tests, comparison with the previous value)
                allowed.add(ValueError)
            if type(out[1]) not in allowed:
                return i, "rejection/foreign-exception", "%s: raised %r (only TraitError or the value's own conversion exception may surface)" % (where, out[1])
    return None


# ----------------------------------------------------------------------------- stages
def grid_gen(tier, shard, nshards):
    n = 0
    cfgs = configs()
    for cfg in cfgs:
        for route in ROUTES:
            # quick tier: the array family is sampled (every 7th configuration, rotating with the route)
            if tier == "quick" and cfg["kind"] == "array" and (n % 7):
                n += 1
                continue
            if n % nshards == shard:
                yield {"cfg": cfg, "route": route}
            n += 1


def grid_run(case, ctx):
    vals = case.get("vals") or all_x_values()
    ctx.evaluations -= 1
    ctx.add_evals(len(vals))
    r = run_seq(case["cfg"], case["route"], vals, ctx)
    if r is not None:
        i, bucket, msg = r
        # minimal replay: the failing value alone if it fails alone, else the shortest failing suffix
        from vf.core import Ctx
        c2 = Ctx("shrink")
        if run_seq(case["cfg"], case["route"], [vals[i]], c2) is not None:
            small = [vals[i]]
        else:
            small = vals[:i + 1]
            for j in range(i, -1, -1):
                if run_seq(case["cfg"], case["route"], vals[j:i + 1], c2) is not None:
                    small = vals[j:i + 1]
                    break
        ctx.report(bucket, msg, {"cfg": case["cfg"], "route": case["route"], "vals": small})


@st.composite
def random_case(draw):
    cfg = draw(st.sampled_from(configs()))
    route = draw(st.sampled_from(ROUTES))
    allv = all_x_values()
    vals = draw(st.lists(st.sampled_from(allv), min_size=1, max_size=8))
    return {"cfg": cfg, "route": route, "vals": vals}


def random_run(case, ctx):
    ctx.evaluations -= 1
    ctx.add_evals(len(case["vals"]))
    r = run_seq(case["cfg"], case["route"], case["vals"], ctx)
    if r is not None:
        ctx.fail(r[1], r[2])


def stages(tier):
    return [
        {"name": "xgrid", "kind": "enum", "batch": True, "gen": grid_gen, "run": grid_run, "shards": 16},
        {"name": "xrandom", "kind": "hyp", "strategy": lambda tier: random_case(), "run": random_run,
         "examples": {"quick": 3000, "thorough": 150000}, "shards": 16},
    ]
