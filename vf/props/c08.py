"""C08 — observe handlers track exactly the objects currently reachable.

Pool of interlinked Node objects (sharing, duplicates, cycles), a generated expression (series /
parallel / items / metadata / anytrait, '.' and ':' links; as DSL text or built with the expression
API incl. optional traits), a history of graph mutations.  After every step a from-scratch
reachability model decides (i) whether the mutation itself had to be reported and (ii) for EVERY
pool object whether a probe change of `value` must call the handler exactly once or not at all.
"""
from hypothesis import strategies as st

from traits.api import HasTraits, TraitError, Int, Str, Instance, List, Dict, Set
from traits.observation.api import (trait, TraitChangeEvent, ListChangeEvent, DictChangeEvent, SetChangeEvent,
                                    push_exception_handler, pop_exception_handler)
from traits.trait_base import Undefined, Uninitialized
from traits.trait_list_object import TraitList
from traits.trait_dict_object import TraitDict
from traits.trait_set_object import TraitSet

ID = "C08"
LEVEL = "exploration"
RULE = ("Hypothesis cases: pool of 2-6 nodes, expression of 1-2 paths (0-3 links through child/children/table/group with "
        "'.' or ':', ending in value / a link / * / +metadata / children.items), given as DSL text or via the expression API, "
        "history of <=25 graph mutations (incl. multi-argument set operations, instance link traits added before or after "
        "registration); after every step every pool object is probed; non-trivial = history containing a "
        "detach of a previously reachable object, a duplicate insertion/removal, an equal-container reassignment, a default "
        "materialisation, an added trait or a cycle through the root; distinct by digest")
ASSUMPTIONS = ["remove_trait is excluded (documented to emit no event)",
               "unmaterialised defaults are not reachable until read (documented); attributes an op touches are read before "
               "the model computes reachability for that step",
               "when a step itself changes whether the mutated observable is reached (container comes to contain its owner) the "
               "expected count for that step's own event may be judged on the state before or after the step"]

LINKS = ["child", "children", "table", "group", "+metac", "+metal", "mlist", "tlists"]
CONTAINER_LINKS = ("children", "table", "group", "+metal", "mlist", "tlists")
INST_ATTRS = ["child", "mchild", "zchild"]
LIST_ATTRS = ["children", "mlist"]
SKIP = (None, Undefined, Uninitialized)


class Node(HasTraits):
    value = Int
    tag = Str(meta=True)
    child = Instance(HasTraits)
    children = List(Instance(HasTraits))
    table = Dict(Str, Instance(HasTraits))
    group = Set(Instance(HasTraits))
    # link traits selected by metadata ("+metac", "+metal" used as intermediate links)
    mchild = Instance(HasTraits, metac=True)
    mlist = List(Instance(HasTraits), metal=True)
    # the same metadata DEFINED BUT FALSY: "+metac" selects every trait whose metadata value is not None
    zchild = Instance(HasTraits, metac=0)
    # containers inside a container: Dict(Str, List(...)), observed as tlists.items.items
    tlists = Dict(Str, List(Instance(HasTraits)))

    def __repr__(self):
        if "_owner" in self.__dict__:
            return "Default(of N%s)" % self.__dict__["_owner"]
        return "N%s" % self.__dict__.get("_nid", "?")


# default object of the same class, created on first read
Node.add_class_trait("mdef", Instance(Node, (), metac=True))


# ----------------------------------------------------------------------------- expressions
# path = [links, end, end_notify]; links = [[name, notify], ...]
def steps_of(path):
    links, end, endn = path
    out = []
    for (l, n) in links:
        out.append(("meta", n, l[1:]) if l.startswith("+") else ("t", l, n))
        if l in CONTAINER_LINKS:
            out.append(("items", n))
        if l == "tlists":
            out.append(("items", n))
    if end == "items_end":
        out.append(("t", "children", True))
        out.append(("items", True))
    elif end == "*":
        out.append(("any", True))
    elif end == "+meta":
        out.append(("meta", True, "meta"))
    else:
        out.append(("t", end, True))
    return out


def to_text(paths):
    outs = []
    for links, end, endn in paths:
        s = ""
        for (l, n) in links:
            s += l + ("." if n else ":")
            if l in CONTAINER_LINKS:
                s += "items" + ("." if n else ":")
            if l == "tlists":
                s += "items" + ("." if n else ":")
        s += "children.items" if end == "items_end" else end
        outs.append(s)
    return ",".join(outs)


def to_expr(paths):
    """The same expression built with the expression API."""
    from traits.observation.api import anytrait, metadata as metadata_, match
    whole = None
    for path in paths:
        e = None
        for s in steps_of(path):
            if s[0] == "t":
                e = trait(s[1], notify=s[2]) if e is None else e.trait(s[1], notify=s[2])
            elif s[0] == "items":
                # DSL `items` = trait named items (optional) | dict | list | set items, joined in series with what came
                # before (no duplication of the prefix)
                from traits.observation.api import dict_items, list_items, set_items
                if e is None:
                    raise ValueError("items first")
                alt = (trait("items", notify=s[1], optional=True) | dict_items(notify=s[1], optional=True)
                       | list_items(notify=s[1], optional=True) | set_items(notify=s[1], optional=True))
                e = e.then(alt)
            elif s[0] == "any":
                e = anytrait(notify=s[1]) if e is None else e.anytrait(notify=s[1])
            elif s[0] == "meta":
                e = metadata_(s[2], notify=s[1]) if e is None else e.metadata(s[2], notify=s[1])
        whole = e if whole is None else (whole | e)
    return whole


# ----------------------------------------------------------------------------- reachability model
class Reach:
    def __init__(self, root, paths):
        self.notify = {}        # key -> bool
        self.positions = {}     # key -> set of (path index, steps remaining)
        for pi, p in enumerate(paths):
            self.walk([root], steps_of(p), pi)

    def mark(self, key, n, pos):
        self.notify[key] = self.notify.get(key, False) or n
        self.positions.setdefault(key, set()).add(pos)

    def walk(self, objs, steps, pi):
        if not steps:
            return
        s = steps[0]
        pos = (pi, len(steps))
        nxt = []
        for o in objs:
            if s[0] == "t":
                if not isinstance(o, HasTraits) or o.trait(s[1]) is None:
                    raise ValueError("no trait %s" % s[1])
                self.mark(("t", id(o), s[1]), s[2], pos)
                v = o.__dict__.get(s[1], Undefined)
                if not any(v is x for x in SKIP):
                    nxt.append(v)
            elif s[0] == "items":
                if isinstance(o, HasTraits) and o.trait("items") is not None:
                    self.mark(("t", id(o), "items"), s[1], pos)
                    v = o.__dict__.get("items", Undefined)
                    if not any(v is x for x in SKIP):
                        nxt.append(v)
                if isinstance(o, (TraitList, TraitSet)):
                    self.mark(("c", id(o)), s[1], pos)
                    nxt.extend(list(o))
                elif isinstance(o, TraitDict):
                    self.mark(("c", id(o)), s[1], pos)
                    nxt.extend(list(o.values()))
            else:
                if not isinstance(o, HasTraits):
                    raise ValueError("not a HasTraits")
                for name, ct in o.traits().items():
                    if name in ("trait_added", "trait_modified"):
                        continue
                    if s[0] == "any" or getattr(ct, s[2]) is not None:
                        self.mark(("t", id(o), name), s[1], pos)
                        v = o.__dict__.get(name, Undefined)
                        if not any(v is x for x in SKIP):
                            nxt.append(v)
        self.walk(nxt, steps[1:], pi)

    def multi_depth(self, key):
        """Is the observable reached at two different depths of the same path (self-referential graph)?"""
        by_path = {}
        for (pi, rem) in self.positions.get(key, ()):
            by_path.setdefault(pi, set()).add(rem)
        return any(len(v) > 1 for v in by_path.values())


# ----------------------------------------------------------------------------- strategies
def expr_strategy():
    link = st.tuples(st.sampled_from(LINKS + ["child", "children"]), st.booleans()).map(list)
    path = st.tuples(st.lists(link, min_size=0, max_size=3),
                     st.sampled_from(["value", "value", "value", "child", "children", "*", "+meta", "items_end"]),
                     st.just(True)).map(list)
    return st.lists(path, min_size=1, max_size=2)


P = st.integers(0, 5)
# owner of a mutation: [1, i] = i-th object currently touched by the expression walk (construction: ops land where
# they matter), [0, i] = i-th pool object
O = st.tuples(st.sampled_from([0, 1, 1, 1]), st.integers(0, 5)).map(list)
IA = st.sampled_from([0, 0, 1, 2])       # index into INST_ATTRS
LA = st.sampled_from([0, 0, 1])          # index into LIST_ATTRS
OP = st.one_of(
    st.tuples(st.just("set_child"), O, st.integers(-1, 5), IA), st.tuples(st.just("set_child"), O, st.integers(-1, 5), IA),
    st.tuples(st.just("append"), O, P, LA), st.tuples(st.just("append"), O, P, LA),
    # the container trait is first assigned ITS OWN current value (the trait stores a fresh copy of it), then mutated
    st.tuples(st.just("self:append"), O, P, LA), st.tuples(st.just("self:table_set"), O, st.sampled_from("ab"), P),
    st.tuples(st.just("self:group_add"), O, P),
    st.tuples(st.just("pop"), O, st.integers(-3, 3), LA), st.tuples(st.just("remove"), O, P, LA),
    st.tuples(st.just("set_children"), O, st.lists(P, max_size=3), LA),
    st.tuples(st.just("same_children"), O, LA),
    st.tuples(st.just("table_set"), O, st.sampled_from("ab"), P),
    st.tuples(st.just("table_pop"), O, st.sampled_from("ab")),
    st.tuples(st.just("set_table"), O, st.lists(st.tuples(st.sampled_from("ab"), P).map(list), max_size=2)),
    st.tuples(st.just("group_add"), O, P), st.tuples(st.just("group_discard"), O, P),
    st.tuples(st.just("set_group"), O, st.lists(P, max_size=2)),
    # bulk set operations with several arguments (each produces ONE event naming everything that left / arrived)
    st.tuples(st.just("group_intersect"), O, st.lists(P, max_size=3), st.lists(P, max_size=3)),
    st.tuples(st.just("group_diff"), O, st.lists(P, max_size=2), st.lists(P, max_size=2)),
    st.tuples(st.just("group_update"), O, st.lists(P, max_size=2), st.lists(P, max_size=2)),
    st.tuples(st.just("group_symdiff"), O, st.lists(P, max_size=3)),
    st.tuples(st.just("insert"), O, st.integers(-3, 3), P, LA),
    st.tuples(st.just("slice_set"), O, st.integers(0, 2), st.integers(0, 3), st.lists(P, max_size=2), LA),
    # replace a slice by k copies of its first element: changes the multiplicity of an object in the list
    st.tuples(st.just("slice_mult"), O, st.integers(0, 2), st.integers(0, 3), st.integers(0, 3), LA),
    st.tuples(st.just("slice_mult"), O, st.integers(0, 2), st.integers(0, 3), st.integers(0, 3), LA),
    st.tuples(st.just("reverse"), O, LA), st.tuples(st.just("clear"), O, LA),
    st.tuples(st.just("tl_set"), O, st.sampled_from("ab"), st.lists(P, max_size=2)),
    st.tuples(st.just("tl_same"), O, st.sampled_from("ab")), st.tuples(st.just("tl_same"), O, st.sampled_from("ab")),
    st.tuples(st.just("tl_append"), O, st.sampled_from("ab"), P), st.tuples(st.just("tl_pop"), O, st.sampled_from("ab")),
    st.tuples(st.just("read_defaults"), O), st.tuples(st.just("quiet_refused"), O),
    # `del` of a link that holds a default OBJECT: the fresh default appears, the old one is gone; then the link is cleared
    st.tuples(st.just("del_default_link"), O),
    st.tuples(st.just("add_trait"), O, st.sampled_from(["extra", "extra_meta", "xchild", "xmchild", "xmchild"]), P),
    # add_trait over a name that ALREADY exists on the object (a class trait on the observed path), with an equivalent
    # definition: nothing about reachability changes, every later change of that trait must still be seen
    st.tuples(st.just("readd_trait"), O, st.sampled_from(["child", "value", "mchild", "children", "table", "group"])),
).map(list)


def strategy(tier):
    return st.fixed_dictionaries({
        "paths": expr_strategy(),
        "api": st.booleans(),
        "npool": st.integers(2, 6),
        # pre-linked pool: (kind, owner, target) so that probes hit reachable objects often
        "chain": st.sampled_from([True, True, True, False]),
        "prelink": st.lists(st.tuples(st.sampled_from(["child", "children", "children", "table", "group", "mlist", "mchild"]), st.integers(0, 2), P).map(list),
                            max_size=5),
        "ops": st.lists(OP, min_size=2, max_size=25),
        "pre_added": st.one_of(st.just([]), st.lists(st.tuples(st.integers(0, 2), P).map(list), min_size=1, max_size=2)),
    })


# ----------------------------------------------------------------------------- interpreter
class Excluded(Exception):
    pass


def run(case, ctx):
    paths = case["paths"]
    npool = case["npool"]
    pool = [Node() for _ in range(npool)]
    for i, n in enumerate(pool):
        n.__dict__["_nid"] = i
    root = pool[0]
    def link(o, kind, t):
        if kind == "child":
            o.child = t
        elif kind in ("mchild", "+metac"):
            o.mchild = t
        elif kind == "children":
            o.children.append(t)
        elif kind in ("mlist", "+metal"):
            o.mlist.append(t)
        elif kind == "tlists":
            o.tlists.setdefault("a", []).append(t)
        elif kind == "table":
            o.table["a"] = t
        else:
            o.group.add(t)
    if case.get("chain"):
        # pre-link a chain along every path so that the expression reaches objects from the start
        for path in paths:
            cur = 0
            for (l, _n) in path[0]:
                nxt = (cur + 1) % npool
                link(pool[cur], l, pool[nxt])
                cur = nxt
    for kind, a, b in case["prelink"]:
        link(pool[a % npool], kind, pool[b % npool])
    # objects prepared while unobserved: a metadata-selected LINK trait added to the instance and already holding a value
    for a, b in case.get("pre_added", ()):
        n = pool[a % npool]
        if "xmchild" not in n.__dict__.get("_added", ()):
            n.add_trait("xmchild", Instance(HasTraits, metac=True))
            n.__dict__.setdefault("_added", set()).add("xmchild")
        n.xmchild = pool[b % npool]
        ctx.label("instance-link-trait-before-registration")
    events = []
    text = to_text(paths)

    def handler(e):
        events.append(e)
    try:
        Reach(root, paths)
        model_fails = False
    except ValueError:
        model_fails = True
    try:
        if case["api"]:
            try:
                expr = to_expr(paths)
            except ValueError:
                return
            root.observe(handler, expr)
        else:
            root.observe(handler, text)
        reg_failed = False
    except ValueError:
        reg_failed = True
    if reg_failed or model_fails:
        # (registration failures are C09's subject; with optional items in the API form the walk may succeed)
        ctx.label("registration-raises")
        return
    known_f16 = any(b.endswith("/self-referential") for b in ctx.active_known)
    tainted = [False]       # a self-referential step happened earlier in this history
    push_exception_handler(handler=lambda ev: None, reraise_exceptions=True)
    interesting = False
    was_reachable = set()
    try:
        def probe(where):
            nonlocal interesting
            r = Reach(root, paths)
            leaves = [x.__dict__["mdef"] for x in pool if isinstance(x.__dict__.get("mdef"), Node)]
            for n in pool + leaves:
                del events[:]
                n.value += 1
                key = ("t", id(n), "value")
                exp = 1 if r.notify.get(key) else 0
                got = list(events)
                sig = ""
                if tainted[0] or r.multi_depth(key) or any(r.multi_depth(k) for k in r.positions):
                    sig = "/self-referential"
                if len(got) != exp:
                    b = "probe/%s%s" % ("missed" if exp else "detached-notified", sig)
                    ctx.fail(b, "%r (api=%s) after %s: changing %r.value called the handler %d time(s), expected %d; events=%r"
                             % (text, case["api"], where, n, len(got), exp, got))
                if exp and not (isinstance(got[0], TraitChangeEvent) and got[0].object is n and got[0].name == "value"):
                    ctx.fail("probe/event-identity", "%r after %s: event %r does not identify %r.value" % (text, where, got[0], n))
                nid = id(n)
                if exp:
                    was_reachable.add(nid)
                    ctx.label("probe-reachable" + ("-default-object" if "_owner" in n.__dict__ else ""))
                else:
                    ctx.label("probe-unreachable")
                    if nid in was_reachable:
                        interesting = True
                        ctx.label("probe-detached")
                        was_reachable.discard(nid)
        probe("registration")
        for op in case["ops"]:
            k = op[0]
            if op[1][0] == 1:
                touched = [x for x in pool if any(kk[0] == "t" and kk[1] == id(x) for kk in Reach(root, paths).positions)]
                n = touched[op[1][1] % len(touched)] if touched else pool[op[1][1] % npool]
            else:
                n = pool[op[1][1] % npool]
            if k == "read_defaults":
                fresh = [x for x in ("child", "children", "table", "group", "mdef", "mlist") if x not in n.__dict__]
                _ = (n.child, n.children, n.table, n.group, n.mchild, n.mlist, n.mdef)
                n.mdef.__dict__["_owner"] = n._nid
                if fresh:
                    interesting = True
                    ctx.label("default-materialised")
                del events[:]
                probe(op)
                continue
            if k == "del_default_link":
                if not isinstance(n.__dict__.get("mdef"), Node):
                    continue
                old_def = n.__dict__["mdef"]
                del n.mdef
                new_def = n.mdef
                new_def.__dict__["_owner"] = n._nid
                interesting = True
                ctx.label("default-link-deleted")
                extra_leaves = [old_def, new_def]
                r = Reach(root, paths)
                for phase in ("after del", "after clearing the link"):
                    for leaf in extra_leaves:
                        del events[:]
                        leaf.value += 1
                        exp = 1 if r.notify.get(("t", id(leaf), "value")) else 0
                        if len(events) != exp:
                            # F48: the delete notification AND the materialisation of the new default both hook it
                            ctx.fail("probe/%s/deleted-default-link" % ("missed" if exp else "detached-notified"),
                                     "%r: %s of %r.mdef, changing %r.value called the handler %d time(s), expected %d"
                                     % (text, phase, n, leaf, len(events), exp))
                    n.mdef = None
                    r = Reach(root, paths)
                break          # (histories are cut here: whatever F48 left behind would only blur later steps)
            if k == "readd_trait":
                name = op[2]
                _ = (n.child, n.children, n.table, n.group, n.mchild, n.value)      # (materialised before, as for every op)
                redefinition = {"child": lambda: Instance(HasTraits), "value": lambda: Int, "mchild": lambda: Instance(HasTraits, metac=True),
                                "children": lambda: List(Instance(HasTraits)), "table": lambda: Dict(Str, Instance(HasTraits)),
                                "group": lambda: Set(Instance(HasTraits))}[name]()
                n.add_trait(name, redefinition)
                interesting = True
                ctx.label("existing-trait-redefined-on-instance")
                probe(op)
                continue
            if k == "add_trait":
                name = op[2]
                if n.trait(name) is not None and name in n.__dict__.get("_added", ()):
                    continue
                if name == "extra":
                    n.add_trait(name, Int(3))
                elif name == "extra_meta":
                    n.add_trait(name, Int(3, meta=True))
                elif name == "xmchild":
                    n.add_trait(name, Instance(HasTraits, metac=True))      # a LINK trait selected by metadata, added later
                else:
                    n.add_trait(name, Instance(HasTraits))
                n.__dict__.setdefault("_added", set()).add(name)
                interesting = True
                ctx.label("add-trait")
                # an added trait matched by `*` / `+meta` becomes observed: check by changing it
                r = Reach(root, paths)
                del events[:]
                if name in ("xchild", "xmchild"):
                    setattr(n, name, pool[op[3] % npool])
                else:
                    setattr(n, name, getattr(n, name) + 1)
                exp = 1 if r.notify.get(("t", id(n), name)) else 0
                if len(events) != exp:
                    ctx.fail("added-trait/%s" % ("missed" if exp else "notified"),
                             "%r: changing added trait %r.%s called the handler %d time(s), expected %d"
                             % (text, n, name, len(events), exp))
                probe(op)
                continue
            if k == "quiet_refused":
                # a quiet (trait_change_notify=False) assignment that is REFUSED: notifications are on again afterwards
                try:
                    n.trait_set(trait_change_notify=False, child="not acceptable")
                    ctx.fail("setup/accepted", "trait_set(child='not acceptable') was accepted")
                except TraitError:
                    pass
                interesting = True
                ctx.label("quiet-assignment-refused")
                probe(op)
                continue
            # materialise the defaults the op reads, before computing reachability
            _ = (n.child, n.children, n.table, n.group, n.mchild, n.mlist, n.tlists)
            if k.startswith("self:"):
                k = k[5:]
                op = [k] + list(op[1:])
                attr_ = LIST_ATTRS[op[-1]] if k == "append" else {"table_set": "table", "group_add": "group"}[k]
                setattr(n, attr_, getattr(n, attr_))          # (same contents: whether this is reported is not judged)
                interesting = True
                ctx.label("container-assigned-to-itself")
            r = Reach(root, paths)
            del events[:]
            tgt = lambda i: pool[i % npool]
            c = None
            iattr = INST_ATTRS[op[3]] if k == "set_child" else None
            lattr = LIST_ATTRS[op[-1]] if k in ("append", "pop", "remove", "set_children", "same_children", "insert",
                                                "slice_set", "slice_mult", "reverse", "clear") else None
            if k == "set_child":
                new = None if op[2] < 0 else tgt(op[2])
                old = getattr(n, iattr)
                exp = ("t", n, iattr, old is not new)
                keys = [("t", id(n), iattr)]
            elif k in ("set_children", "same_children"):
                cur = getattr(n, lattr)
                new = [tgt(i) for i in op[2]] if k == "set_children" else list(cur)
                exp = ("t", n, lattr, list(cur) != new)
                keys = [("t", id(n), lattr)]
                if k == "same_children":
                    interesting = True
                    ctx.label("equal-container-reassigned")
            elif k == "set_table":
                new = {a: tgt(b) for a, b in op[2]}
                exp = ("t", n, "table", dict(n.table) != new)
                keys = [("t", id(n), "table")]
            elif k == "set_group":
                new = {tgt(i) for i in op[2]}
                exp = ("t", n, "group", set(n.group) != new)
                keys = [("t", id(n), "group")]
            elif k in ("append", "insert", "pop", "remove", "slice_set", "slice_mult", "reverse", "clear"):
                c = getattr(n, lattr)
                keys = [("c", id(c))]
            elif k in ("table_set", "table_pop"):
                c = n.table
                keys = [("c", id(c))]
            elif k in ("tl_set", "tl_same"):
                if k == "tl_same" and op[2] not in n.tlists:
                    continue
                c = n.tlists
                keys = [("c", id(c))]
            elif k in ("tl_append", "tl_pop"):
                if op[2] not in n.tlists or (k == "tl_pop" and not n.tlists[op[2]]):
                    continue
                c = n.tlists[op[2]]
                keys = [("c", id(c))]
            else:
                c = n.group
                keys = [("c", id(c))]
            self_ref = any(r.multi_depth(kk) for kk in keys)
            if self_ref and known_f16:
                ctx.exclude("self-referential step (F16)")
                break
            plain_c = lambda x: (list(x) if isinstance(x, list) else {kk: (list(vv) if isinstance(vv, list) else vv) for kk, vv in x.items()}
                                 if isinstance(x, dict) else set(x))
            before_snapshot = plain_c(c) if c is not None else None
            # ---- perform
            try:
                if k == "set_child":
                    setattr(n, iattr, new)
                elif k in ("set_children", "same_children"):
                    setattr(n, lattr, new)
                elif k == "set_table":
                    n.table = new
                elif k == "set_group":
                    n.group = new
                elif k == "append":
                    x = tgt(op[2])
                    if x in c:
                        interesting = True
                        ctx.label("duplicate-insert")
                    c.append(x)
                elif k == "insert":
                    c.insert(op[2], tgt(op[3]))
                elif k == "pop":
                    if c:
                        try:
                            x = c.pop(op[2])
                            if x in c:
                                interesting = True
                                ctx.label("duplicate-removed-once")
                        except IndexError:
                            pass
                elif k == "remove":
                    x = tgt(op[2])
                    if x in c:
                        c.remove(x)
                        if x in c:
                            interesting = True
                            ctx.label("duplicate-removed-once")
                elif k == "slice_set":
                    c[op[2]:op[3]] = [tgt(i) for i in op[4]]
                elif k == "slice_mult":
                    if op[2] < len(c):
                        x = c[op[2]]
                        before_n = list(c).count(x)
                        c[op[2]:op[3]] = [x] * op[4]
                        if list(c).count(x) != before_n and before_n + list(c).count(x) > 1:
                            interesting = True
                            ctx.label("multiplicity-changed")
                elif k == "reverse":
                    c.reverse()
                elif k == "clear":
                    c.clear()
                elif k == "tl_set":
                    c[op[2]] = [tgt(i) for i in op[3]]
                elif k == "tl_same":
                    # an EQUAL but not identical list under an existing key: its items must be hooked, the old list's not
                    c[op[2]] = list(c[op[2]])
                    interesting = True
                    ctx.label("equal-inner-list-reassigned")
                elif k == "tl_append":
                    c.append(tgt(op[3]))
                elif k == "tl_pop":
                    c.pop()
                elif k == "table_set":
                    c[op[2]] = tgt(op[3])
                elif k == "table_pop":
                    c.pop(op[2], None)
                elif k == "group_add":
                    c.add(tgt(op[2]))
                elif k == "group_discard":
                    c.discard(tgt(op[2]))
                elif k == "group_intersect":
                    c.intersection_update([tgt(i) for i in op[2]], {tgt(i) for i in op[3]})
                elif k == "group_diff":
                    c.difference_update([tgt(i) for i in op[2]], {tgt(i) for i in op[3]})
                elif k == "group_update":
                    c.update([tgt(i) for i in op[2]], {tgt(i) for i in op[3]})
                elif k == "group_symdiff":
                    c.symmetric_difference_update([tgt(i) for i in op[2]])
            except Exception as e:
                ctx.fail("step/raised" + ("/self-referential" if (self_ref or tainted[0]) else ""),
                         "%r: %r raised %r" % (text, op, e))
            if c is not None:
                after_snapshot = plain_c(c)
                changed = before_snapshot != after_snapshot or (k == "reverse" and len(before_snapshot) > 0)
                exp = ("c", c, changed)
            r2 = Reach(root, paths)
            self_ref = self_ref or any(r2.multi_depth(kk) for kk in keys)
            if self_ref and known_f16:
                ctx.exclude("self-referential step (F16)")
                break
            if self_ref:
                tainted[0] = True
                ctx.label("self-referential-step")
            if any(r2.notify.get(("t", id(root), l)) is not None and False for l in LINKS):
                pass
            key = ("t", id(exp[1]), exp[2]) if exp[0] == "t" else ("c", id(exp[1]))
            ch = exp[3] if exp[0] == "t" else exp[2]
            wants = {1 if (rr.notify.get(key) and ch) else 0 for rr in ((r, r2) if self_ref else (r,))}
            if not ch:
                # an operation that leaves the contents as they were may or may not be reported
                wants = wants | {0, 1} if (r.notify.get(key) and exp[0] == "c") else wants
            if len(events) not in wants:
                ctx.fail("step/%s%s" % ("missed" if len(events) < min(wants) else "unexpected", "/self-referential" if (self_ref or tainted[0]) else ""),
                         "%r (api=%s) op %r: %d event(s) %r, expected %s (reached+notify before=%r, changed=%r)"
                         % (text, case["api"], op, len(events), events, sorted(wants), r.notify.get(key), ch))
            if events:
                e = events[0]
                if exp[0] == "t":
                    if not (isinstance(e, TraitChangeEvent) and e.object is exp[1] and e.name == exp[2]):
                        ctx.fail("step/event-identity", "%r op %r: event %r does not identify %r.%s" % (text, op, e, exp[1], exp[2]))
                else:
                    cls = {TraitList: ListChangeEvent, TraitDict: DictChangeEvent, TraitSet: SetChangeEvent}
                    want_cls = next(v for kk, v in cls.items() if isinstance(exp[1], kk))
                    if not (isinstance(e, want_cls) and e.object is exp[1]):
                        ctx.fail("step/event-identity", "%r op %r: event %r is not a %s for the mutated container"
                                 % (text, op, e, want_cls.__name__))
            if r2.notify.get(("t", id(root), "child")) is not None and root.child is root or any(root is x for x in root.children):
                interesting = True
                ctx.label("cycle-through-root")
            probe(op)
    finally:
        pop_exception_handler()
    if interesting:
        ctx.nontrivial()


def stages(tier):
    return [{"name": "hist", "kind": "hyp", "strategy": strategy, "run": run,
             "examples": {"quick": 24000, "thorough": 300000}, "shards": 16}]
