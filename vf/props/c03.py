"""C03 — compiled fast validators decide exactly like the Python validators.

Differential oracle: ctrait.validate (compiled path) vs ctrait.handler.validate (the trait type's own
Python method) on the same class trait, for sequences of values (the trait object is reused, so
state that leaks between validations is caught).  Compound law: Either/Trait(...) accept iff some
alternative validated alone accepts, and yield what the first accepting alternative (fast ones first,
then slow ones, declared order) yields alone; Tuple members likewise.
"""
import json

from hypothesis import strategies as st

from traits import api as T
from traits.trait_errors import TraitError
from vf import lattice as L
from vf import values as V

ID = "C03"
LEVEL = "exploration"
RULE = ("grid: every (configuration with a fast-validation descriptor incl. Either/Trait compounds, lattice value) pair, "
        "each configuration validated over the whole lattice on one trait object in two orders; compounds: Hypothesis-generated "
        "nested Either/Tuple specifications (depth<=3) x lattice and spec-derived values; non-trivial = value not of the "
        "trait's exact native type that is converted, accepted through a non-first alternative or rejected; distinct by "
        "(spec, value) digest")
ASSUMPTIONS = ["an outcome 'non-TraitError exception on both sides' counts as agreement; the compiled path turning a "
               "non-TraitError Python exception into TraitError is allowed by the statement",
               "handlers without a Python validate of their own (Module) are compared with the documented predicate"]

OWNER = object()
L.SPECIALS["owner()"] = lambda: OWNER
V.SPECIAL["owner()"] = lambda: OWNER

LEGACY = {
    "Trait(1,int,str)": lambda: T.Trait(1, int, str),
    "Trait(None,Foo)": lambda: T.Trait(None, L.Foo),
    "Trait(1,2,3,'a')": lambda: T.Trait(1, 2, 3, "a"),
    "Trait(0.0,Str)": lambda: T.Trait(0.0, T.Str),
    "Trait('a',map)": lambda: T.Trait("a", {"a": 1, "b": 2}),
    "Trait('',Str,Instance('Foo'))": lambda: T.Trait("", T.Str, T.Instance("Foo", module="vf.lattice")),
    "Either(Str,Instance('Foo'))": lambda: T.Either(T.Str, T.Instance("Foo", module="vf.lattice")),
    "Either(Instance('Foo',allow_none=False),Int)": lambda: T.Either(T.Instance("Foo", module="vf.lattice", allow_none=False), T.Int),
    "Instance('Foo')": lambda: T.Instance("Foo", module="vf.lattice"),
    "Either(Float,Int,None)": lambda: T.Either(T.Float, T.Int, None),
    "Trait(None,int,float)": lambda: T.Trait(None, int, float),
    # single coercing types: "float <- int", "complex <- float, int" are documented as COERCED
    "Trait(1.5)": lambda: T.Trait(1.5), "Trait(float)": lambda: T.Trait(float), "Trait(1j)": lambda: T.Trait(1j),
    # an adapting Instance whose DEFAULT is an object (made by its factory), alone and as a late alternative
    "Instance(Foo,(),adapt='default')": lambda: T.Instance(L.Foo, (), adapt="default"),
    "Either(Str,Instance(Foo,(),adapt='default'))": lambda: T.Either(T.Str, T.Instance(L.Foo, (), adapt="default")),
    "Either(Instance(Foo,(),adapt='default'),Int)": lambda: T.Either(T.Instance(L.Foo, (), adapt="default"), T.Int),
    "Trait('x',1.5)": lambda: T.Trait("x", 1.5), "Trait(7)": lambda: T.Trait(7), "Trait('s')": lambda: T.Trait("s"),
}


def build(spec):
    if spec[0] == "Legacy":
        return LEGACY[spec[1]]()
    if spec[0] in ("Either", "Tuple"):
        # nested specs may contain Legacy nodes
        subs = [build(s) for s in spec[1]]
        return T.Either(*subs) if spec[0] == "Either" else T.Tuple(*subs)
    return L.build(spec)


def outcome(f):
    try:
        return ("ok", f())
    except TraitError:
        return ("TE",)
    except RecursionError:
        raise
    except Exception as e:
        return ("EXC", type(e).__name__)


def subst(v, obj):
    """Replace the OWNER sentinel (also inside tuples) by an instance of the declaring class."""
    if v is OWNER:
        return obj
    if type(v) is tuple:
        return tuple(subst(x, obj) for x in v)
    return v


def has_owner(v):
    return v is OWNER or (type(v) is tuple and any(has_owner(x) for x in v))


class Alone:
    """A specification declared alone on its own class: the reference for the compound law."""

    def __init__(self, spec):
        self.spec = spec
        if spec[0] == "None":
            self.cls = self.ct = None
            return
        self.cls = type("Owner", (T.HasTraits,), {"x": build(spec)})
        self.obj = self.cls()
        self.ct = self.obj.trait("x")

    def fix(self, v):
        if self.ct is None:
            return v
        return subst(v, self.obj)

    def c(self, v):
        if self.ct is None:
            return ("ok", None) if v is None else ("TE",)
        v = self.fix(v)
        return outcome(lambda: self.ct.validate(self.obj, "x", v))

    def is_fast(self):
        if self.ct is None:
            return True
        h = self.ct.handler
        return getattr(h, "fast_validate", None) is not None


def flat_alts(spec):
    """Alternatives of an Either in declared order (nested Eithers are expanded in place)."""
    out = []
    for s in spec[1]:
        if s[0] == "Either":
            out.extend(flat_alts(s))
        else:
            out.append(s)
    return out


def eval_order(spec, is_fast):
    """Alternatives of an Either in the compound's own evaluation order: fast alternatives in declared
    order (a nested compound that has fast alternatives contributes them in place, followed in place by its
    own slow group), then the slow ones.  is_fast(leaf_spec) -> bool."""
    fast, slow = eval_order_parts(spec, is_fast)
    return fast + slow


def eval_order_parts(spec, is_fast):
    fast, slow = [], []
    # constants such as None are gathered into one trailing enumeration alternative of their level
    level = [s for s in spec[1] if s != ["None"]] + [s for s in spec[1] if s == ["None"]]
    for s in level:
        if s[0] == "Either":
            f, sl = eval_order_parts(s, is_fast)
            if f:
                fast.extend(f)
                fast.extend(sl)
            else:
                slow.extend(sl)
        elif is_fast(s):
            fast.append(s)
        else:
            slow.append(s)
    return fast, slow


def same(a, b, owner_value=False):
    if owner_value:
        # the value is "an instance of the declaring class": each class got its own instance
        return a[0] == b[0]
    return a[0] == b[0] and (a[0] != "ok" or L.eq(a[1], b[1]) or a[1] is b[1])


def coerce_types(handler, acc=None):
    """Types of all TraitCoerceType alternatives reachable from handler."""
    from traits.trait_handlers import TraitCoerceType, TraitCompound
    acc = [] if acc is None else acc
    if isinstance(handler, TraitCoerceType):
        acc.extend(t for t in handler.fast_validate[1:] if isinstance(t, type))
    elif isinstance(handler, TraitCompound):
        for h in handler.handlers:
            coerce_types(h, acc)
    return acc


def run_seq(spec, vals, ctx, report_single=True):
    """Validate the values in order on one class trait; returns None or (index, bucket, message)."""
    main = Alone(spec)
    ct, obj = main.ct, main.obj
    h = ct.handler
    fast = getattr(h, "fast_validate", None) is not None or not callable(getattr(ct, "get_validate", lambda: None)())
    alts = None
    if spec[0] == "Either":
        cache = {}

        def alone(s):
            k = L.spec_id(s)
            if k not in cache:
                cache[k] = Alone(s)
            return cache[k]
        # (an Instance(adapt="default") alternative needs its own default value and is validated in Python, i.e. with the
        #  slow group, although the same trait on its own has a compiled validator)
        alts = [alone(s) for s in eval_order(spec, lambda s: alone(s).is_fast() and not (s[0] == "Instance" and s[3] == "default"))]
        alts_declared = [alone(s) for s in flat_alts(spec)]
    members = [Alone(s) for s in spec[1]] if spec[0] == "Tuple" else None
    sid = L.spec_id(spec)
    for i, enc in enumerate(vals):
        v0 = V.dec(enc)
        v = subst(v0, obj)
        if L.hazardous(spec, v0):
            continue
        c = outcome(lambda: ct.validate(obj, "x", v))
        if not fast and spec[0] != "Module":
            # no compiled path at all (every alternative is Python-validated): only the compound law applies
            ctx.label("no-fast-path")
            p = c
        elif h is not None and hasattr(h, "validate") and spec[0] != "Module":
            p = outcome(lambda: h.validate(obj, "x", v))
        else:
            r = L.ref(spec, v)
            p = ("ok", r[1]) if r[0] == L.ACC else ("TE",)
        nontrivial = c[0] != "ok" or c[1] is not v
        problem = None
        if p[0] == "EXC":
            # the Python method neither accepted nor raised TraitError (the value's own protocol raised inside it,
            # e.g. int(inf) in a CInt alternative, `array in enum`): the statement fixes no decision for the fast path
            ctx.label("python-passthrough")
        elif (c[0] == "ok") != (p[0] == "ok"):
            if True:
                sig = ""
                if c[0] == "ok" and any(isinstance(v, t) and type(v) is not t for t in coerce_types(h)):
                    sig = "/coerce-type-subclass"      # root-cause signature of F15
                problem = ("differential/accept" + sig, "compiled %r, python %r" % (c, p))
        elif c[0] == "ok" and not same(c, p) and type(c[1]) is type(p[1]) is L.Foo and c[1] is not v and p[1] is not v:
            ctx.label("fresh-default-objects")          # two default objects made by the same factory: equal for our purposes
        elif c[0] == "ok" and not same(c, p):
            kind = "tuple-subclass" if isinstance(v, tuple) and type(v) is not tuple else "value"
            if spec[0] == "Legacy" and "adapt='default'" in spec[1] and spec[1].startswith("Either") and type(p[1]) is L.Foo and p[1] is not v:
                # F57: the Python validator returns the default OF THE INSTANCE ALTERNATIVE, the compiled compound the
                # default of the compound trait
                kind = "value/adapt-default-in-compound"
            if kind == "value" and spec[0] == "Either" and p[1] is None and v is not None and \
                    any(s_[0] == "Instance" and s_[3] == "default" for s_ in flat_alts(spec)):
                # F57: the value falls through to an Instance(adapt="default") alternative, whose own default (None here)
                # the Python validator returns; the compiled compound returns the COMPOUND's default instead
                kind = "value/adapt-default-in-compound"
            problem = ("differential/%s" % kind, "compiled stores %r (%s), python %r (%s)"
                       % (c[1], type(c[1]).__name__, p[1], type(p[1]).__name__))
        elif p[0] == "TE" and c[0] != "TE":
            problem = ("differential/TraitError", "python raises TraitError, compiled %r" % (c,))
        # compound law against alternatives validated alone
        if problem is None and alts is not None:
            outs = [a.c(v0) for a in alts]
            first = next((o for o in outs if o[0] == "ok"), None)
            # "first accepting alternative": in evaluation order, or in declared order - the statement fixes neither
            first_decl = next((o for o in (a.c(v0) for a in alts_declared) if o[0] == "ok"), None)
            if any(o[0] == "EXC" for o in outs) or c[0] == "EXC":
                # an alternative's conversion protocol raised (alone, or inside the compound: int(inf) in a CInt
                # alternative surfaces as OverflowError from the compound): not covered by the law
                ctx.label("compound-passthrough")
            elif first is None and c[0] == "ok":
                problem = ("compound/accept", "compound accepts %r -> %r but no alternative alone accepts" % (v, c[1]))
            elif first is not None and c[0] != "ok":
                problem = ("compound/reject", "compound rejects %r but an alternative alone accepts (-> %r)" % (v, first[1]))
            elif first is not None and not same(c, first, has_owner(v0)) and not same(c, first_decl, has_owner(v0)):
                problem = ("compound/first", "compound yields %r (%s), first accepting alternative alone yields %r (%s)"
                           % (c[1], type(c[1]).__name__, first[1], type(first[1]).__name__))
            if first is not None and outs.index(first) > 0:
                nontrivial = True
                ctx.label("late-alternative")
        if problem is None and members is not None and isinstance(v0, tuple) and len(v0) == len(members):
            outs = [m.c(x) for m, x in zip(members, v0)]
            if any(o[0] == "EXC" for o in outs):
                pass
            elif all(o[0] == "ok" for o in outs):
                if c[0] != "ok":
                    problem = ("compound/tuple", "every member alone accepts, Tuple rejects %r" % (v,))
                elif type(v) is tuple and not has_owner(v0) and not L.eq(tuple(c[1]), tuple(o[1] for o in outs)):
                    problem = ("compound/tuple", "Tuple yields %r, members alone yield %r" % (c[1], tuple(o[1] for o in outs)))
            elif c[0] == "ok":
                problem = ("compound/tuple", "a member alone rejects, Tuple accepts %r -> %r" % (v, c[1]))
        if nontrivial:
            ctx.nontrivial(key=[sid, enc], sample={"spec": spec, "val": enc, "compiled": repr(c)[:80]})
        if problem is not None:
            return i, problem[0], "spec=%s value=%r: %s" % (sid, v, problem[1])
    return None


def judge(spec, vals, ctx):
    ctx.add_evals(len(vals))
    r = run_seq(spec, vals, ctx)
    if r is None:
        return
    i, bucket, msg = r
    # minimise: alone, else shortest failing prefix suffix
    ctx2 = type(ctx)(ctx.stage)
    if run_seq(spec, [vals[i]], ctx2) is not None:
        case = {"spec": spec, "vals": [vals[i]]}
    else:
        lo = 0
        for j in range(i - 1, -1, -1):
            if run_seq(spec, vals[j:i + 1], ctx2) is not None:
                lo = j
                break
        case = {"spec": spec, "vals": vals[lo:i + 1]}
        bucket += "/history"
    ctx.report(bucket, msg, case)


# ----------------------------------------------------------------------------- stage grid
def fast_grid():
    g = [s for s in L.grid() if s[0] not in ("Union", "None")]
    g += [["Legacy", n] for n in LEGACY]
    g += [["Either", [["This", False], ["Str"]]], ["Either", [["This", False], ["Int"]]],
          ["Either", [["Callable", False], ["Int"]]], ["Either", [["Type", "Foo", False], ["Int"]]],
          ["Either", [["Instance", "Foo", False, None], ["Str"]]],
          ["Either", [["Tuple", [["Int"], ["Int"]]], ["Str"]]],
          ["Either", [["Str"], ["Instance", "Foo", True, "default"]]], ["Either", [["Instance", "Foo", False, "default"], ["Int"]]],
          ["Either", [["Either", [["Int"], ["Str"]]], ["Float"]]],
          ["Tuple", [["Either", [["Int"], ["Str"]]], ["Float"]]],
          ["Tuple", [["This", False], ["Int"]]], ["Tuple", [["Instance", "Foo", False, None], ["Callable", False]]]]
    return g


def grid_gen(tier, shard, nshards):
    for i, spec in enumerate(fast_grid()):
        if i % nshards == shard:
            yield {"spec": spec, "order": "fwd"}
            yield {"spec": spec, "order": "rev"}


def grid_run(case, ctx):
    spec = case["spec"]
    if "vals" in case:
        vals = case["vals"]
    else:
        vals = [e for e, _ in L.all_values()] + [{"x": "owner()"}]
        if case.get("order") == "rev":
            vals = vals[::-1]
    judge(spec, vals, ctx)


# ----------------------------------------------------------------------------- stage lazy
# A class named by a STRING inside a trait is resolved at the first validation - through whichever object happens to
# validate first.  If that object has its own copy of the trait (a listener was attached to it), every OTHER object of
# the class must still decide like the Python validator afterwards.
LAZY_SPECS = {
    "Either(Instance('Foo'),Int)": lambda: T.Either(T.Instance("Foo", module="vf.lattice"), T.Int),
    "Either(Int,Instance('Foo'))": lambda: T.Either(T.Int, T.Instance("Foo", module="vf.lattice")),
    "Instance('Foo')": lambda: T.Instance("Foo", module="vf.lattice"),
    "List(Instance('Foo'))": lambda: T.List(T.Instance("Foo", module="vf.lattice")),
    "Trait(None,Instance('Foo'),Str)": lambda: T.Trait(None, T.Instance("Foo", module="vf.lattice"), T.Str),
    "Tuple(Instance('Foo'),Int)": lambda: T.Tuple(T.Instance("Foo", module="vf.lattice"), T.Int),
}


def lazy_gen(tier, shard, nshards):
    i = 0
    for name in sorted(LAZY_SPECS):
        for first in ("listener-object", "plain-object", "class-trait"):
            for first_value in ("foo", "int", "bad"):
                if i % nshards == shard:
                    yield {"spec": name, "first": first, "first_value": first_value}
                i += 1


def lazy_run(case, ctx):
    ctx.nontrivial()
    cls = type("LazyOwner", (T.HasTraits,), {"x": LAZY_SPECS[case["spec"]]()})
    listener_obj, plain_obj = cls(), cls()
    listener_obj.on_trait_change(lambda: None, "x")        # gives this object its own copy of the trait
    foo = L.Foo()
    wrap = (lambda v: [v]) if case["spec"].startswith("List") else (lambda v: (v, 1)) if case["spec"].startswith("Tuple") else (lambda v: v)
    first_v = wrap({"foo": foo, "int": 5, "bad": "zzz" if "Str" not in case["spec"] else 2.5}[case["first_value"]])
    # the first validation (it resolves the class) happens through ...
    try:
        if case["first"] == "listener-object":
            listener_obj.x = first_v
        elif case["first"] == "plain-object":
            plain_obj.x = first_v
        else:
            cls.__class_traits__["x"].validate(plain_obj, "x", first_v)
    except T.TraitError:
        pass
    # ... afterwards EVERY object accepts what the Python validator accepts
    others = [listener_obj, plain_obj, cls()]
    late = cls()
    late.on_trait_change(lambda: None, "x")
    others.append(late)
    for v, label in ((wrap(foo), "a Foo"), (wrap(L.Bar()), "a Bar (subclass)"), (wrap(L.Other()), "an Other")):
        for idx, o in enumerate(others):
            ct = o.trait("x")
            c = outcome(lambda: ct.validate(o, "x", v))
            p = outcome(lambda: ct.handler.validate(o, "x", v))
            a = outcome(lambda: setattr(o, "x", v))
            if (c[0] == "ok") != (p[0] == "ok") or (a[0] == "ok") != (p[0] == "ok"):
                ctx.fail("differential/accept/lazy-class", "%r, first validation through %s with %s: object #%d then validates %s: compiled %r, "
                         "assignment %r, python %r" % (case["spec"], case["first"], case["first_value"], idx, label, c[0], a[0], p[0]))


# ----------------------------------------------------------------------------- stage compounds
LEAVES = [["Int"], ["Float"], ["Complex"], ["Str"], ["Bytes"], ["Bool"], ["CInt"], ["CFloat"], ["CStr"], ["CBool"], ["None"],
          ["Range", 0.0, 1.0, False, False], ["Range", 0.0, 1.0, True, True], ["Range", 0, 3, False, True],
          ["Range", None, 1.0, False, False], ["Enum", [1, 2, "a"]], ["Enum", [1.0, True, "yes"]], ["Map", [["yes", 1], ["no", 0]]],
          ["Instance", "Foo", True, None], ["Instance", "Foo", False, None], ["Instance", "int", False, None],
          ["Type", "Foo", True], ["Type", "Foo", False], ["This", True], ["This", False], ["Callable", True],
          ["Callable", False], ["List", ["Int"], 0, None], ["String", 1, 3, ""], ["Dict", ["Str"], ["Int"]],
          ["TupleAny"], ["Legacy", "Instance('Foo')"], ["PrefixList", ["yes", "no"]]]


def spec_strategy():
    leaf = st.sampled_from(LEAVES)
    return st.recursive(
        leaf,
        lambda ch: st.one_of(
            st.lists(ch, min_size=2, max_size=4).map(lambda a: ["Either", a]),
            st.lists(ch, min_size=1, max_size=3).map(lambda a: ["Tuple", [x if x != ["None"] else ["Int"] for x in a]])),
        max_leaves=8).filter(lambda s: s[0] in ("Either", "Tuple"))


def value_for(spec, draw_bad):
    """Strategy for encoded values the spec accepts or nearly accepts (construction, not rejection)."""
    k = spec[0]
    lat = st.sampled_from([e for e, _ in L.all_values()] + [{"x": "owner()"}])
    table = {
        "Int": st.sampled_from([0, 1, 5, True, {"x": "Idx(1)"}, {"x": "MyInt(1)"}, {"x": "np.int64(2)"}]),
        "Float": st.sampled_from([0.5, 1, {"f": "nan"}, {"x": "Flt(0.5)"}, {"x": "np.float32(0.5)"}, {"x": "MyFloat(0.5)"}, True]),
        "Complex": st.sampled_from([{"c": [0, 1]}, 1, 0.5, {"x": "Cpx(1j)"}]),
        "Str": st.sampled_from(["a", "", "yes", {"x": "MyStr(a)"}]), "Bytes": st.sampled_from([{"b": "61"}, {"b": ""}]),
        "Bool": st.sampled_from([True, False, {"x": "np.bool_(True)"}]),
        "CInt": st.sampled_from(["1", 1.5, "x", {"f": "inf"}]), "CFloat": st.sampled_from(["0.5", 1, "x"]),
        "CStr": st.sampled_from([1, None, "a"]), "CBool": st.sampled_from([0, "", [1]]), "None": st.just(None),
        "Range": st.sampled_from([0.0, 1.0, 0.5, 0, 1, 3, {"f": "nan"}, {"x": "nextafter(1,2)"}, {"x": "nextafter(0,-1)"}, {"f": "-0.0"}, True, 2]),
        "Enum": st.sampled_from([1, 2, "a", 1.0, True, "yes", 3]), "Map": st.sampled_from(["yes", "no", "y", 1]),
        "Instance": st.sampled_from([None, {"x": "Foo()"}, {"x": "Bar()"}, {"x": "Other()"}, 1, {"x": "MyInt(1)"}]),
        "Type": st.sampled_from([None, {"x": "Foo"}, {"x": "Bar"}, {"x": "Other"}, {"x": "int"}]),
        "This": st.sampled_from([None, {"x": "owner()"}, {"x": "Foo()"}]), "Callable": st.sampled_from([None, {"x": "len"}, {"x": "fn"}, 1]),
        "Module": st.sampled_from([{"x": "sys"}, None]), "List": st.sampled_from([{"l": [1, 2]}, {"l": []}, {"l": ["a"]}]),
        "String": st.sampled_from(["a", "abcd", "", 1]), "Dict": st.sampled_from([{"d": [["a", 1]]}, {"d": []}, {"d": [[1, 1]]}]),
        "TupleAny": st.sampled_from([{"t": []}, {"t": [1, 2]}, {"x": "P(1,2)"}]), "Legacy": st.sampled_from([None, {"x": "Foo()"}, {"x": "Other()"}]),
        "PrefixList": st.sampled_from(["yes", "y", "n", "x"]),
    }
    if k == "Either":
        return st.one_of([value_for(s, draw_bad) for s in spec[1]] + [lat])
    if k == "Tuple":
        return st.one_of(
            st.tuples(*[value_for(s, draw_bad) for s in spec[1]]).map(lambda t: {"t": list(t)}),
            st.tuples(*[value_for(s, draw_bad) for s in spec[1]]).map(lambda t: {"t": list(t)[:-1]}),
            lat)
    return st.one_of(table.get(k, lat), table.get(k, lat), lat)


@st.composite
def compound_case(draw):
    spec = draw(spec_strategy())
    vals = draw(st.lists(value_for(spec, True), min_size=1, max_size=12))
    return {"spec": spec, "vals": vals}


def compounds_strategy(tier):
    return compound_case()


def compounds_run(case, ctx):
    # the evaluation count is per (spec, value) pair; ctx.begin counted the case itself already
    ctx.evaluations -= 1
    ctx.add_evals(len(case["vals"]))
    r = run_seq(case["spec"], case["vals"], ctx)
    if r is not None:
        ctx.fail(r[1], r[2])


# ----------------------------------------------------------------------------- stage fuzz (thorough): native libFuzzer
def fuzz_decode(data):
    """bytes -> (spec, [encoded values]) through a data provider, so that the fuzzer reaches validators, not decoding."""
    import atheris
    fdp = atheris.FuzzedDataProvider(bytes(data))
    grid = fast_grid()
    lat = [e for e, _ in L.all_values()] + [{"x": "owner()"}]
    spec = grid[fdp.ConsumeIntInRange(0, len(grid) - 1)]

    def value(depth=0):
        k = fdp.ConsumeIntInRange(0, 7)
        if k <= 2:
            return lat[fdp.ConsumeIntInRange(0, len(lat) - 1)]
        if k == 3:
            return V.enc(fdp.ConsumeFloat())
        if k == 4:
            return fdp.ConsumeInt(8)
        if k == 5:
            return fdp.ConsumeUnicodeNoSurrogates(4)
        if k == 6 and depth < 2:
            return {"t": [value(depth + 1) for _ in range(fdp.ConsumeIntInRange(0, 3))]}
        return [None, True, False][fdp.ConsumeIntInRange(0, 2)]
    vals = [value() for _ in range(fdp.ConsumeIntInRange(1, 3))]
    return spec, vals


def fuzz_target(data, ctx):
    spec, vals = fuzz_decode(data)
    r = run_seq(spec, vals, ctx)
    if r is not None:
        ctx.fail(r[1], r[2] + " (decoded case: %s)" % json.dumps({"spec": spec, "vals": vals}))


def fuzz_replay(case, ctx):
    if "bytes_hex" in case:
        fuzz_target(bytes.fromhex(case["bytes_hex"]), ctx)
    else:
        r = run_seq(case["spec"], case["vals"], ctx)
        if r is not None:
            ctx.fail(r[1], r[2])


def _lazy_stage():
    return {"name": "lazy", "kind": "enum", "gen": lazy_gen, "run": lazy_run, "shards": 4, "exhaustive": True}


def stages(tier):
    extra = []
    if tier == "thorough":
        extra.append({"name": "fuzz", "kind": "fuzz", "flavour": "fuzz", "target": fuzz_target, "run": fuzz_replay, "shards": 8,
                      "max_len": 48, "runs": {"quick": 4000, "thorough": 400000},
                      "seeds": [bytes([3, 0, 1, 0, 5]), bytes([40, 1, 3]) + b"\x00" * 8, bytes([90, 2, 6, 2, 0, 1, 0, 2])]})
    return extra + [
        {"name": "grid", "kind": "enum", "batch": True, "gen": grid_gen, "run": grid_run, "shards": 16, "exhaustive": True},
        {"name": "compounds", "kind": "hyp", "strategy": compounds_strategy, "run": compounds_run,
         "examples": {"quick": 2500, "thorough": 250000}, "shards": 16},
        _lazy_stage(),
    ]
