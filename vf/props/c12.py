"""C12 — observed/cached properties are never stale and announce dependency changes.

A class with 9 properties (cached and uncached) over scalar, Instance, list/dict/set item and nested
dependencies; histories of dependency mutations (duplicates, shared children, multiplicity changes,
explicitly-empty containers) interleaved with reads; at generated points the object is replaced by
its pickle / clone_traits / deepcopy image and the history continues on the copy.
Oracle: every read equals an independent recomputation; a cached getter runs at most once between
two relevant changes; a change that alters the computed value is announced (static, on_trait_change
and observe handlers) and the last announced `new` equals the recomputed value.
"""
import copy
import pickle

from hypothesis import strategies as st

from traits.api import HasTraits, Int, Str, Instance, List, Dict, Set, Property, cached_property

ID = "C12"
LEVEL = "exploration"
RULE = ("Hypothesis histories (<=25 ops) over 14 dependency mutators, reads and copy operations on an object with 9 observed "
        "properties (optionally a subclass that only overrides getters with cached ones); non-trivial = history in which a "
        "shared/repeated item is removed once and then mutated, an intermediate "
        "object is replaced, a multiplicity-changing slice assignment happens, or the history crosses a copy; distinct by digest")
ASSUMPTIONS = ["nothing is asserted about the reported `old` value", "getters are pure functions of the current state"]

CALLS = {}
STATIC = []


class Child(HasTraits):
    value = Int
    children = List(Instance("Child"))


class EqChild(Child):
    """Items with VALUE-BASED equality (a fixed group number, so the hash never changes): two pool members of one group
    are equal but distinct objects with different `value`s - replacing one by the other in a container is a change of the
    computed property although `old == new`."""
    grp = Int

    def __eq__(self, other):
        return isinstance(other, EqChild) and self.grp == other.grp

    def __hash__(self):
        return hash(("EqChild", self.grp))


def count(name):
    CALLS[name] = CALLS.get(name, 0) + 1


class _Once:
    """A raw container notifier that takes itself out of the container's `notifiers` list the first time it is called."""

    def __call__(self, container, *rest):
        if any(x is self for x in container.notifiers):
            container.notifiers.remove(self)


class Bare(HasTraits):
    """Lacks `value`: hooking it makes the observers' maintainer raise - after the list was already changed."""
    other = Int


class P(HasTraits):
    a = Int
    child = Instance(Child)
    children = List(Instance(HasTraits))
    table = Dict(Str, Instance(Child))
    group = Set(Instance(Child))
    p_a = Property(Int, observe="a")
    c_a = Property(Int, observe="a")
    c_child = Property(observe="child.value")
    c_list = Property(observe="children.items.value")
    u_list = Property(observe="children.items.value")
    c_table = Property(observe="table.items.value")
    c_group = Property(observe="group.items.value")
    c_nested = Property(observe="child.children.items.value")
    c_multi = Property(observe=["a", "child.value", "children.items"])

    def _get_p_a(self):
        return self.a * 2

    @cached_property
    def _get_c_a(self):
        count("c_a")
        return self.a * 2

    @cached_property
    def _get_c_child(self):
        count("c_child")
        return None if self.child is None else self.child.value

    @cached_property
    def _get_c_list(self):
        count("c_list")
        return [getattr(c, "value", -1) for c in self.children]

    def _get_u_list(self):
        return [getattr(c, "value", -1) for c in self.children]

    @cached_property
    def _get_c_table(self):
        count("c_table")
        return sorted((k, c.value) for k, c in self.table.items())

    @cached_property
    def _get_c_group(self):
        count("c_group")
        return sorted(c.value for c in self.group)

    @cached_property
    def _get_c_nested(self):
        count("c_nested")
        return None if self.child is None else [c.value for c in self.child.children]

    @cached_property
    def _get_c_multi(self):
        count("c_multi")
        return (self.a, None if self.child is None else self.child.value, len(self.children))

    def _a_changed(self):
        # a static handler that READS a cached property: during unpickling it runs while the object is half restored
        self.c_multi
        self.c_list

    def _c_list_changed(self, new):
        STATIC.append(("c_list", new))

    def _c_child_changed(self, new):
        STATIC.append(("c_child", new))

    def _c_nested_changed(self, new):
        STATIC.append(("c_nested", new))


class PS(P):
    """A subclass that only overrides two getters of the inherited (not redeclared) observed properties - the plain
    getters of the base become cached ones."""

    @cached_property
    def _get_u_list(self):
        return [getattr(c, "value", -1) for c in self.children]

    @cached_property
    def _get_p_a(self):
        return self.a * 2


PROPS = ["p_a", "c_a", "c_child", "c_list", "u_list", "c_table", "c_group", "c_nested", "c_multi"]
WITH_STATIC = ("c_list", "c_child", "c_nested")


def recompute(o):
    return {"p_a": o.a * 2, "c_a": o.a * 2, "c_child": None if o.child is None else o.child.value,
            "c_list": [getattr(c, "value", -1) for c in o.children], "u_list": [getattr(c, "value", -1) for c in o.children],
            "c_table": sorted((k, c.value) for k, c in o.table.items()), "c_group": sorted(c.value for c in o.group),
            "c_nested": None if o.child is None else [c.value for c in o.child.children],
            "c_multi": (o.a, None if o.child is None else o.child.value, len(o.children))}


I4 = st.integers(0, 3)
OP = st.one_of(
    st.tuples(st.just("set_a"), st.integers(0, 3)), st.tuples(st.just("set_child"), st.integers(-1, 3)),
    st.tuples(st.just("set_child_fresh"), st.booleans()),
    st.tuples(st.just("cval"), I4, st.integers(0, 5)), st.tuples(st.just("cval"), I4, st.integers(0, 5)),
    st.tuples(st.just("cval"), I4, st.integers(0, 5)),
    # change the value of a current list member / nested member (construction: hits objects that matter)
    st.tuples(st.just("cval_member"), I4, st.integers(0, 9)), st.tuples(st.just("cval_member"), I4, st.integers(0, 9)),
    st.tuples(st.just("cval_member"), I4, st.integers(0, 9)), st.tuples(st.just("cval_nested_member"), I4, st.integers(0, 9)),
    st.tuples(st.just("append"), I4), st.tuples(st.just("append"), I4), st.tuples(st.just("pop"), st.integers(-2, 2)),
    st.tuples(st.just("pop"), st.integers(-2, 2)),
    st.tuples(st.just("remove"), I4),
    st.tuples(st.just("set_children"), st.lists(I4, max_size=3)),
    st.tuples(st.just("slice_mult"), st.integers(0, 2), st.integers(0, 3), st.integers(0, 3)),
    st.tuples(st.just("slice_mult"), st.integers(0, 2), st.integers(0, 3), st.integers(0, 3)),
    st.tuples(st.just("reverse")),
    st.tuples(st.just("setitem"), I4, I4), st.tuples(st.just("setitem"), I4, I4),
    st.tuples(st.just("append_bare")),
    st.tuples(st.just("table_set"), st.sampled_from("ab"), I4), st.tuples(st.just("table_pop"), st.sampled_from("ab")),
    # pop with a DEFAULT that happens to be the very object stored under the key
    st.tuples(st.just("table_pop_same"), st.sampled_from("ab")),
    # a quiet (notification-free) bulk assignment that is REFUSED: it must leave notifications switched on
    st.tuples(st.just("quiet_refused"), st.sampled_from(["a", "child", "children"])),
    st.tuples(st.just("table_update"), st.lists(st.tuples(st.sampled_from("abc"), I4).map(list), max_size=3)),
    st.tuples(st.just("group_add"), I4), st.tuples(st.just("group_discard"), I4),
    # a batch whose LATER element is refused: the whole operation is refused, or whatever it did is announced
    st.tuples(st.just("batch_bad"), st.sampled_from(["group", "group2", "children", "children_iadd", "table"]), st.lists(I4, min_size=1, max_size=3)),
    # a notifier at the head of the container's own `notifiers` list that takes itself out when first called
    st.tuples(st.just("arm_oneshot"), st.sampled_from(["children", "group", "table"]), st.integers(0, 4)),
    st.tuples(st.just("nested_append"), I4, I4), st.tuples(st.just("nested_set"), I4, st.lists(I4, max_size=2)),
    st.tuples(st.just("nested_pop"), I4),
    st.tuples(st.just("read"), st.sampled_from(PROPS)), st.tuples(st.just("read"), st.sampled_from(PROPS)),
    st.tuples(st.just("copy"), st.sampled_from(["pickle", "pickle2", "clone", "deepcopy"])),
).map(list)


def strategy(tier):
    return st.fixed_dictionaries({
        "handlers": st.booleans(),
        "explicit_empty": st.lists(st.booleans(), min_size=4, max_size=4),
        "ops": st.lists(OP, min_size=1, max_size=25),
        "subclass": st.sampled_from([False, False, True]),
        "any_only": st.booleans(),
        "eqnodes": st.sampled_from([False, False, True]),
        "ctor_a": st.sampled_from([None, None, 2]),
    })


def run(case, ctx):
    # with a constructor keyword the static handler of `a` runs - and reads two cached properties, materialising the
    # default containers they depend on - while the object is still being initialised
    kw = {"a": case["ctor_a"]} if case.get("ctor_a") else {}
    if kw:
        ctx.label("dependencies-materialised-during-construction")
    o = PS(**kw) if case.get("subclass") else P(**kw)
    if case.get("subclass"):
        ctx.label("subclass-overriding-getters")
    # half of the pool has an explicitly assigned empty `children` list (an unmaterialised default is documented not to
    # be observed until read; an explicit empty container must be)
    eqnodes = bool(case.get("eqnodes"))
    if eqnodes:
        # pool members 0/2 and 1/3 compare equal (and hash alike) but are distinct objects with different values
        ctx.label("value-equal-items")
        pool = [EqChild(value=i, grp=i % 2, children=[]) if e else EqChild(value=i, grp=i % 2)
                for i, e in enumerate(case["explicit_empty"])]
    else:
        pool = [Child(value=i, children=[]) if e else Child(value=i) for i, e in enumerate(case["explicit_empty"])]

    def equal_not_same(new, old):
        """A whole-value assignment of an equal but different object is, under the default comparison mode, documented
        not to be a change (no notification although the new object is stored): outside the statement, not generated."""
        if not eqnodes or new is old:
            return False
        try:
            return bool(new == old)
        except Exception:
            return False
    ev = []
    with_handlers = case["handlers"]

    # an OBJECT-LEVEL handler only (no name): it is told about every property change even when nothing listens to the
    # property by name
    any_only = bool(case.get("any_only")) and not with_handlers

    def attach(o):
        if with_handlers:
            for p in PROPS:
                o.observe(lambda e: ev.append(("obs", e.name, e.new)), p)
                o.on_trait_change(lambda obj, n, old, new: ev.append(("otc", n, new)), p)
        if any_only:
            o.on_trait_change(lambda obj, n, old, new: ev.append(("any", n, new)))
    attach(o)
    if any_only:
        ctx.label("object-level-handler-only")
    interesting = False
    removed_once = set()
    for op in case["ops"]:
        k = op[0]
        before = recompute(o)
        del ev[:]
        del STATIC[:]
        CALLS.clear()
        what = "op=%r" % (op,)
        if k == "read":
            for _ in range(3):
                got = getattr(o, op[1])
                if got != before[op[1]]:
                    ctx.fail("stale/read", "%s reads %r, recomputation gives %r" % (op[1], got, before[op[1]]))
            if CALLS.get(op[1], 0) > 1:
                ctx.fail("cache/getter-ran-again", "cached getter of %s ran %d times for 3 reads without a change" % (op[1], CALLS[op[1]]))
            continue
        if k == "copy":
            how = op[1]
            try:
                if how == "pickle":
                    o2 = pickle.loads(pickle.dumps(o))
                elif how == "pickle2":
                    o2 = pickle.loads(pickle.dumps(o, 2))
                elif how == "clone":
                    o2 = o.clone_traits(copy="deep")
                else:
                    o2 = copy.deepcopy(o)
            except Exception as e:
                ctx.fail("copy/raised", "%s raised %r" % (how, e))
            seen = []
            for c in list(o2.children) + list(o2.table.values()) + list(o2.group) + ([o2.child] if o2.child is not None else []):
                if not any(c is s for s in seen):
                    seen.append(c)
                for cc in c.children:
                    if not any(cc is s for s in seen):
                        seen.append(cc)
            while len(seen) < 4:
                seen.append(EqChild(value=len(seen), grp=len(seen) % 2, children=[]) if eqnodes else Child(value=len(seen), children=[]))
            o = o2
            pool = seen
            attach(o)
            now = recompute(o)
            for p in PROPS:
                if getattr(o, p) != now[p]:
                    ctx.fail("stale/after-copy", "%s of the %s image reads %r, recomputation gives %r" % (p, how, getattr(o, p), now[p]))
            interesting = True
            ctx.label("copy:" + how)
            continue
        n = len(pool)
        if k == "set_a":
            o.a = op[1]
        elif k == "set_child":
            new = None if op[1] < 0 else pool[op[1] % n]
            if equal_not_same(new, o.child):
                continue
            o.child = new
            interesting = True
            ctx.label("intermediate-replaced")
        elif k == "set_child_fresh":
            o.child = Child(value=9, children=[]) if op[1] else Child(value=9)
            pool.append(o.child)
            ctx.label("fresh-child" + ("-explicit-empty" if op[1] else ""))
        elif k == "cval":
            c = pool[op[1] % n]
            c.value = op[2]
            if id(c) in removed_once:
                interesting = True
                ctx.label("mutated-after-removed-once")
        elif k == "cval_member":
            if o.children:
                c = o.children[op[1] % len(o.children)]
                c.value = op[2]
                if id(c) in removed_once:
                    interesting = True
                    ctx.label("mutated-after-removed-once")
        elif k == "cval_nested_member":
            if o.child is not None and o.child.children:
                o.child.children[op[1] % len(o.child.children)].value = op[2]
        elif k == "append":
            o.children.append(pool[op[1] % n])
        elif k == "pop":
            try:
                x = o.children.pop(op[1])
                if any(x is y for y in o.children):
                    removed_once.add(id(x))
            except IndexError:
                pass
        elif k == "remove":
            x = pool[op[1] % n]
            if any(x is y for y in o.children):
                o.children.remove(x)
                if any(x is y for y in o.children):
                    removed_once.add(id(x))
        elif k == "set_children":
            new = [pool[i % n] for i in op[1]]
            if equal_not_same(new, list(o.children)):
                continue
            o.children = new
        elif k == "slice_mult":
            c = o.children
            if op[1] < len(c):
                x = c[op[1]]
                c[op[1]:op[2]] = [x] * op[3]
                interesting = True
                ctx.label("multiplicity-op")
                if any(x is y for y in c):
                    removed_once.add(id(x))
        elif k == "reverse":
            o.children.reverse()
        elif k == "setitem":
            if o.children:
                o.children[op[1] % len(o.children)] = pool[op[2] % n]
        elif k == "append_bare":
            # the observers raise (no trait `value`) - after the list has changed; properties must still not be stale
            try:
                o.children.append(Bare())
            except ValueError:
                ctx.label("maintainer-raised")
            # keep later steps well-defined: take the bare item out again (its removal may raise for the same reason)
            after_bad = recompute(o)
            for p_ in ("c_list", "u_list"):
                if getattr(o, p_) != after_bad[p_]:
                    ctx.fail("stale/after-failing-maintainer", "%s reads %r after appending an item the observers reject, "
                             "recomputation gives %r" % (p_, getattr(o, p_), after_bad[p_]))
            try:
                o.children.pop()
            except Exception:
                pass
            now = recompute(o)
            for p_ in PROPS:
                if getattr(o, p_) != now[p_]:
                    ctx.fail("stale/after-failing-maintainer", "%s reads %r after removing the rejected item again, recomputation %r"
                             % (p_, getattr(o, p_), now[p_]))
            continue          # (two changes happened inside this step: the per-change getter count does not apply)
        elif k == "table_set":
            if eqnodes and op[1] in o.table and o.table[op[1]] is not pool[op[2] % n] and o.table[op[1]] == pool[op[2] % n]:
                interesting = True
                ctx.label("dict-value-replaced-by-equal-object")
            o.table[op[1]] = pool[op[2] % n]
        elif k == "table_pop":
            o.table.pop(op[1], None)
        elif k == "table_pop_same":
            o.table.pop(op[1], o.table.get(op[1]))
        elif k == "quiet_refused":
            from traits.api import TraitError as _TE
            try:
                o.trait_set(trait_change_notify=False, **{op[1]: "not acceptable"})
                ctx.fail("setup/accepted", "trait_set(%s='not acceptable') was accepted" % op[1])
            except _TE:
                pass
            ctx.label("quiet-assignment-refused")
        elif k == "table_update":
            o.table.update({a: pool[b % n] for a, b in op[1]})
        elif k == "group_add":
            o.group.add(pool[op[1] % n])
        elif k == "batch_bad":
            from traits.api import TraitError as _TE
            good = [pool[i % n] for i in op[2]]
            try:
                if op[1] == "group":
                    o.group.update(good + ["not a child"])
                elif op[1] == "group2":
                    o.group.update(good, ["not a child"])
                elif op[1] == "children":
                    o.children.extend(good + [5])
                elif op[1] == "children_iadd":
                    c_ = o.children
                    c_ += good + [5]
                else:
                    o.table.update([("k%d" % i, g) for i, g in enumerate(good)] + [("z", 5)])
                ctx.fail("setup/accepted", "a batch with an unacceptable element was accepted: %s" % what)
            except _TE:
                pass
            interesting = True
            ctx.label("batch-with-a-refused-later-element")
        elif k == "arm_oneshot":
            nl = getattr(o, op[1]).notifiers
            nl.insert(min(op[2], len(nl)), _Once())
            interesting = True
            ctx.label("self-removing-notifier-ahead-of-the-property")
            continue
        elif k == "group_discard":
            x = pool[op[1] % n]
            if eqnodes and any(m is not x and m == x for m in o.group):
                # F55: discard / remove report the ARGUMENT, not the equal stored member, as `removed`; the observers then
                # unhook an object they never hooked (NotifierNotFound reaches the caller of a legal discard)
                if "set-removal/equal-argument-reported" in ctx.active_known:
                    ctx.exclude("set discard through an equal but not identical object (F55)")
                    continue
                try:
                    o.group.discard(x)
                except Exception as e:
                    ctx.fail("set-removal/equal-argument-reported", "group.discard(<object equal to, but not identical with, the member>) "
                             "raised %r; group=%r c_group=%r" % (e, sorted(c.value for c in o.group), o.c_group))
            else:
                o.group.discard(x)
        elif k == "nested_append":
            c, x = pool[op[1] % n], pool[op[2] % n]
            if c is x:
                continue
            c.children.append(x)
        elif k == "nested_set":
            c = pool[op[1] % n]
            new = [pool[i % n] for i in op[2] if pool[i % n] is not c]
            if equal_not_same(new, list(c.children)):
                continue
            c.children = new
        elif k == "nested_pop":
            c = pool[op[1] % n]
            if c.children:
                c.children.pop()
        after = recompute(o)
        for p, cnt in CALLS.items():
            # (the static _a_changed handler reads c_multi / c_list in the middle of the notification of `a`, possibly
            #  before the invalidating observer has run: one extra computation there is not a second run "between changes")
            allowed = 2 if (k == "set_a" and p in ("c_multi", "c_list")) else 1
            if cnt > allowed:
                ctx.fail("cache/getter-ran-again", "getter of %s ran %d times during one change: %s" % (p, cnt, what))
        for p in PROPS:
            got = getattr(o, p)
            if got != after[p]:
                ctx.fail("stale/after-change", "%s reads %r after %s, recomputation gives %r (before the change %r)"
                         % (p, got, what, after[p], before[p]))
            if before[p] != after[p]:
                ctx.label("value-altering-change")
                if any_only and not [e for e in ev if e[0] == "any" and e[1] == p]:
                    ctx.fail("notify/missing", "%s changed %r -> %r by %s but the object-level handler was not told (it heard %r)"
                             % (p, before[p], after[p], what, sorted({e[1] for e in ev})))
                if with_handlers:
                    for mech in ("obs", "otc"):
                        got_ev = [e for e in ev if e[0] == mech and e[1] == p]
                        if not got_ev:
                            ctx.fail("notify/missing", "%s changed %r -> %r by %s but no %s notification" % (p, before[p], after[p], what, mech))
                        if got_ev[-1][2] != after[p]:
                            ctx.fail("notify/last-new", "%s: last announced new=%r, recomputation %r: %s" % (p, got_ev[-1][2], after[p], what))
                if p in WITH_STATIC:
                    got_st = [e for e in STATIC if e[0] == p]
                    if not got_st:
                        ctx.fail("notify/missing", "%s changed by %s but the static handler was not called" % (p, what))
                    if got_st[-1][1] != after[p]:
                        ctx.fail("notify/last-new", "%s: static handler last saw %r, recomputation %r" % (p, got_st[-1][1], after[p]))
    if interesting:
        ctx.nontrivial()


def stages(tier):
    return [{"name": "hist", "kind": "hyp", "strategy": strategy, "run": run,
             "examples": {"quick": 24000, "thorough": 300000}, "shards": 16}]
