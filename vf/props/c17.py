"""C17 — adaptation finds an adapter chain iff one exists, and a shortest one.

Generated small type hierarchies (single/multiple inheritance, ABCs with register), offer multisets
built ALONG drawn paths (so that chains of length 1-4 are frequent) plus distractors, duplicates,
cycles and conditional factories; decided against an unpruned brute-force enumeration of all
sequences of distinct applicable offers.  A second mode goes through Supports / AdaptsTo /
Instance(adapt=...) traits with the manager installed globally.
"""
import abc
import importlib.abc
import importlib.machinery
import sys

from hypothesis import strategies as st

from traits.adaptation.api import AdaptationManager, AdaptationError, get_global_adaptation_manager, set_global_adaptation_manager
from traits.adaptation.adaptation_offer import AdaptationOffer
from traits.api import HasTraits, Supports, AdaptsTo, Instance, TraitError, Either, Int, Str

ID = "C17"
LEVEL = "exploration"
RULE = ("Hypothesis cases: 2-6 classes (bases, ABC flags, register pairs), 0-2 constructed paths of 1-4 offers plus 0-4 extra "
        "offers with 6 kinds of conditional factories, source/target, optional default, 6 access modes, specificity twins, a "
        "short chain entering through a far base class, late ABC registrations, re-assignment after a new offer; non-trivial = >=2 "
        "candidate chains, a chain of length >=2, a cycle among the offers or a conditional factory on a candidate; distinct by digest")
ASSUMPTIONS = ["factories are deterministic functions of the chain they wrap",
               "a watchdog expiry on these tiny inputs counts as a violation of 'returns or raises'"]


# ---- modules that exist only as a recipe until somebody imports them (for offers whose protocols and factory are given
# as dotted strings: the documented way to keep a plugin un-imported until an adaptation needs it)
LAZY = {}          # module name -> function(module) that fills it
LAZY_SERIAL = [0]


class _LazyFinder(importlib.abc.MetaPathFinder, importlib.abc.Loader):
    def find_spec(self, fullname, path, target=None):
        if fullname in LAZY:
            return importlib.machinery.ModuleSpec(fullname, self)
        return None

    def create_module(self, spec):
        return None

    def exec_module(self, module):
        LAZY[module.__name__](module)


if not any(isinstance(f, _LazyFinder) for f in sys.meta_path):
    sys.meta_path.append(_LazyFinder())


class Wrap:
    def __init__(self, inner, oid):
        self.inner, self.oid = inner, oid


def chain_of(x):
    c = []
    while isinstance(x, Wrap):
        c.append(x.oid)
        x = x.inner
    return list(reversed(c)), x


def build_classes(spec):
    classes = []
    for i, (bases, is_abc) in enumerate(spec):
        bs = tuple(classes[b % i] for b in dict.fromkeys(bases)) if i > 0 and bases else ()
        bs = tuple(sorted(set(bs), key=lambda c: -classes.index(c)))
        try:
            if is_abc:
                cls = abc.ABCMeta("K%d" % i, bs or (object,), {})
            else:
                cls = type("K%d" % i, bs or (object,), {})
        except TypeError:
            cls = type("K%d" % i, (object,), {})
        classes.append(cls)
    return classes


def cond_ok(cond, ln):
    """Does a factory with this condition succeed when the adaptee already carries a chain of length ln?"""
    if cond == 1:
        return False
    if cond == 2:
        return ln % 2 == 0
    if cond == 3:
        return ln % 2 == 1
    if cond == 4:
        return ln >= 2
    if cond == 5:
        return ln >= 3
    return True


I5 = st.integers(0, 5)
# (6 = the factory RAISES while "armed": a first, unjudged attempt runs with every such factory armed; the judged
#  attempt runs after they have been disarmed and behaves like an unconditional offer)
COND = st.sampled_from([0, 0, 0, 0, 1, 2, 3, 4, 5, 6, 6])
ARMED = [False]


def strategy(tier):
    return st.fixed_dictionaries({
        "classes": st.lists(st.tuples(st.one_of(st.just([]), st.just([]), st.lists(I5, max_size=2)), st.booleans()).map(list),
                            min_size=3, max_size=6),
        "regs": st.lists(st.tuples(I5, I5).map(list), max_size=2),
        # offers constructed along paths: [class indices], consecutive pairs become offers
        "paths": st.lists(st.lists(I5, min_size=2, max_size=5, unique=True), min_size=0, max_size=2),
        "path_conds": st.lists(COND, min_size=8, max_size=8),
        "extra": st.lists(st.tuples(I5, I5, COND).map(list), max_size=4),
        "src": I5, "tgt": I5,
        "start_at_path": st.sampled_from([True, True, True, True, False]),
        # (either_*: the adapting trait is one alternative of a compound)
        "mode": st.sampled_from(["adapt", "adapt", "adapt_default", "supports", "adaptsto", "instance_yes", "either_supports", "either_instance_yes"]),
        # specificity scenario: a twin of the first offer registered for a protocol the source provides only by ABC
        # registration, or for a subclass of the source (which then is the adaptee's class)
        # "lazy-*": the twin offer names its protocol and factory by dotted strings into a module that is not imported yet
        # and in which the protocol declares (ABC.register) that the source class provides it; "lazy-replace" puts it in
        # the place of the first offer of the path, so that the only chain runs through the un-imported module
        "twin": st.sampled_from([None, None, None, "registered", "subclass", "registered-first", "subclass-first",
                                 "lazy-add", "lazy-replace", "lazy-replace"]),
        # ABC registrations that happen only AFTER a first adaptation attempt (results must not be remembered across them)
        "late_regs": st.lists(st.tuples(I5, I5).map(list), max_size=2),
        # a SHORT chain (k offers through fresh classes) that enters through an extra BASE class of the adaptee's class,
        # competing with the (usually longer) constructed path whose offers are registered for nearer classes
        "via_base": st.sampled_from([0, 0, 0, 1, 2, 2]),
        # trait modes: after the first assignment a new exact-type offer is registered and the SAME object is assigned
        # again; the trait must then hold what adapt() gives now
        "reassign": st.booleans(),
        "lazy_registers": st.booleans(),
    })


def run(case, ctx):
    try:
        _run(case, ctx)
    finally:
        for name in list(LAZY):
            sys.modules.pop(name, None)
            del LAZY[name]


def _run(case, ctx):
    classes = build_classes(case["classes"])
    n = len(classes)
    for (a, b) in case["regs"]:
        A, B = classes[a % n], classes[b % n]
        if isinstance(A, abc.ABCMeta) and A is not B and not issubclass(A, B):
            try:
                A.register(B)
            except (RuntimeError, TypeError):
                pass
    offers = []
    ci = 0
    for path in case["paths"]:
        for f, t in zip(path, path[1:]):
            offers.append((f % n, t % n, case["path_conds"][ci % 8]))
            ci += 1
    offers += [tuple(x) for x in case["extra"]]
    offers = offers[:7]
    twin = case.get("twin")
    adaptee_cls = None
    if twin and case["paths"] and case["start_at_path"]:
        f0, t0 = case["paths"][0][0] % n, case["paths"][0][1] % n
        if twin.startswith("lazy"):
            # the harness-side stand-in with the same subclass relation (the real class lives in the lazy module)
            Pcls = abc.ABCMeta("LazyP", (object,), {})
            Pcls.register(classes[f0])
        elif twin.startswith("registered"):
            Pcls = abc.ABCMeta("P", (object,), {})
            Pcls.register(classes[f0])
        else:
            Pcls = type("Sub", (classes[f0],), {})
            adaptee_cls = Pcls
        classes.append(Pcls)
        new_offer = (Pcls, t0, 7 if twin.startswith("lazy") else 0)
        if twin == "lazy-replace":
            offers = [new_offer] + offers[1:]
        else:
            offers = [new_offer] + offers if twin.endswith("first") else offers + [new_offer]
        ctx.label("twin:" + twin)
    vb = case.get("via_base", 0)
    if vb and not twin and case["paths"] and case["start_at_path"]:
        s0, t_end = case["paths"][0][0] % n, case["paths"][0][-1] % n
        try:
            far = type("FarBase", (object,), {})
            adaptee_cls = type("SubB", (classes[s0], far), {})
        except TypeError:
            adaptee_cls = None
        if adaptee_cls is not None:
            classes.append(far)
            prev = far
            for step in range(vb - 1):
                mid = type("Mid%d" % step, (object,), {})
                classes.append(mid)
                offers.append((prev, mid, 0))
                prev = mid
            offers.append((prev, t_end, 0))
            ctx.label("via-base:%d" % vb)
    mgr = AdaptationManager()
    offs = []
    for oid, (f, t, cond) in enumerate(offers):
        F = f if isinstance(f, type) else classes[f % n]         # (scenario classes are given as objects, drawn ones by index)
        Tt = t if isinstance(t, type) else classes[t % n]

        def factory(adaptee, oid=oid, cond=cond):
            ch, _ = chain_of(adaptee)
            if cond == 6 and ARMED[0]:
                raise RuntimeError("factory %d fails this time" % oid)
            if not cond_ok(cond, len(ch)):
                return None
            return Wrap(adaptee, oid)
        if cond == 7:
            LAZY_SERIAL[0] += 1
            lazy_name = "vf_c17_lazy_%d" % LAZY_SERIAL[0]

            def fill(module, factory=factory, src=classes[case["paths"][0][0] % n], Tt=Tt):
                module.LazyP = abc.ABCMeta("LazyP", (object,), {})
                module.LazyP.register(src)
                module.factory = factory
                module.Target = Tt
                if case.get("lazy_registers"):
                    # the module registers an offer of its own while it is being imported (a declining one between two
                    # fresh classes: it changes nothing about which chains exist)
                    mgr.register_factory(lambda adaptee: None, type("LazyA", (object,), {}), type("LazyB", (object,), {}))
            LAZY[lazy_name] = fill
            mgr.register_offer(AdaptationOffer(factory=lazy_name + ".factory", from_protocol=lazy_name + ".LazyP",
                                               to_protocol=lazy_name + ":Target"))
        else:
            mgr.register_factory(factory, F, Tt)
        offs.append((F, Tt, cond))
    if case.get("late_regs"):
        # first attempt with the early registrations only (its outcome is not judged, it only warms whatever is cached)
        S0 = classes[(case["paths"][0][0] if case["paths"] else case["src"]) % n]
        T0 = classes[(case["paths"][0][-1] if case["paths"] else case["tgt"]) % n]
        try:
            mgr.adapt(S0(), T0, None)
            mgr.supports_protocol(S0(), T0)
        except TypeError:
            pass
        for (a, b) in case["late_regs"]:
            A, B = classes[a % n], classes[b % n]
            if isinstance(A, abc.ABCMeta) and A is not B and not issubclass(A, B):
                try:
                    A.register(B)
                    ctx.label("late-registration")
                except (RuntimeError, TypeError):
                    pass
    if case["start_at_path"] and case["paths"]:
        S = classes[case["paths"][0][0] % n]
        T = classes[case["paths"][0][-1] % n]
    else:
        S, T = classes[case["src"] % n], classes[case["tgt"] % n]
    if adaptee_cls is not None:
        S = adaptee_cls
    try:
        adaptee = S()
    except TypeError:
        return                       # abstract class
    # ---- brute force: every sequence of distinct offers chaining by issubclass, unpruned
    succ = []

    def factories_ok(seq):
        for ln, oid in enumerate(seq):
            if not cond_ok(offs[oid][2], ln):
                return False
        return True

    def rec(cur, seq):
        for oid, (F, Tt, cond) in enumerate(offs):
            if oid in seq or not issubclass(cur, F):
                continue
            s2 = seq + [oid]
            if issubclass(Tt, T) and factories_ok(s2):
                succ.append(s2)
            rec(Tt, s2)
    provides = issubclass(S, T)
    if not provides:
        rec(S, [])
    desc = "classes=%r regs=%r offers=%r src=%s tgt=%s mode=%s" % (
        [(c.__name__, [b.__name__ for b in c.__bases__]) for c in classes], case["regs"],
        [(F.__name__, Tt.__name__, c) for F, Tt, c in offs], S.__name__, T.__name__, case["mode"])
    if len(succ) > 1 or any(len(s) > 1 for s in succ):
        ctx.nontrivial()
    if any(len(s) >= 2 for s in succ):
        ctx.label("chain>=2-exists")
    if succ and min(len(s) for s in succ) >= 2:
        ctx.label("shortest>=2")
    if succ and min(len(s) for s in succ) >= 3:
        ctx.label("shortest>=3")
    if any(c for _, _, c in offs):
        ctx.label("conditional-offer")

    # ---- a first attempt during which some factories raise: whatever it does, it must not change what the next one finds
    if any(c == 6 for _, _, c in offs):
        ARMED[0] = True
        try:
            mgr.adapt(adaptee, T, None)
            mgr.supports_protocol(adaptee, T)
        except Exception:
            ctx.label("first-attempt-raised")
        finally:
            ARMED[0] = False
    # ---- an object that already provides the protocol is returned itself - also when that object is None
    for proto in (object, type(None)):
        got_none = mgr.adapt(None, proto, "<default>")
        if got_none is not None:
            ctx.fail("adapt/provides", "adapt(None, %s, default) returns %r although None already provides %s: %s"
                     % (proto.__name__, got_none, proto.__name__, desc))
    # ---- the implementation
    mode = case["mode"]
    sentinel = object()
    reassign_problem = None
    old_mgr = get_global_adaptation_manager()
    raised = None
    res = sentinel
    try:
        if mode == "adapt":
            try:
                res = mgr.adapt(adaptee, T)
            except AdaptationError as e:
                raised = e
        elif mode == "adapt_default":
            res = mgr.adapt(adaptee, T, sentinel)
        else:
            set_global_adaptation_manager(mgr)
            if mode == "supports":
                H = type("H", (HasTraits,), {"x": Supports(T)})
            elif mode == "adaptsto":
                H = type("H", (HasTraits,), {"x": AdaptsTo(T)})
            elif mode == "either_supports":
                H = type("H", (HasTraits,), {"x": Either(Int, Supports(T))})
            elif mode == "either_instance_yes":
                H = type("H", (HasTraits,), {"x": Either(Instance(T, adapt="yes"), Str)})
            else:
                H = type("H", (HasTraits,), {"x": Instance(T, adapt="yes")})
            h = H()
            try:
                h.x = adaptee
                res = h.x if mode != "adaptsto" else h.x_
                other = h.x_ if mode == "supports" else (h.x if mode == "adaptsto" else None)
            except TraitError as e:
                raised = e
            if case.get("reassign") and not issubclass(S, T):
                new_oid = len(offs)
                mgr.register_factory(lambda a: Wrap(a, new_oid), S, T)
                direct = chain_of(mgr.adapt(adaptee, T))[0]
                h.x = adaptee
                again = chain_of(h.x if mode != "adaptsto" else h.x_)[0]
                ctx.label("reassigned-after-new-offer")
                if again != direct:
                    reassign_problem = "%s trait holds the chain %r after the same object was assigned again, adapt() now gives %r" \
                        % (mode, again, direct)
    except Exception as e:
        ctx.fail("adapt/exception-class", "%s raised %r" % (desc, e))
    finally:
        set_global_adaptation_manager(old_mgr)
    found = raised is None and res is not sentinel
    ctx.label("mode:" + mode)
    if reassign_problem:
        ctx.fail("traits/stale-after-reassignment", "%s: %s" % (reassign_problem, desc))
    if provides:
        ctx.label("already-provides")
        if not found or res is not adaptee:
            ctx.fail("adapt/provides", "object already provides the protocol but the result is %r (raised %r): %s" % (res, raised, desc))
        return
    if not succ:
        ctx.label("no-chain")
        if found:
            ctx.fail("adapt/invented-chain", "no chain of applicable offers exists but the result is a chain %r: %s" % (chain_of(res)[0], desc))
        return
    ctx.label("chain-exists")
    if not found:
        ctx.fail("adapt/missed-chain", "chains %r exist but adaptation failed (%r): %s" % (succ[:5], raised, desc))
    ch, base = chain_of(res)
    if base is not adaptee:
        ctx.fail("adapt/wrong-adaptee", "the adapter does not wrap the adaptee: %s" % desc)
    if ch not in succ:
        ctx.fail("adapt/invalid-chain", "returned chain %r is not a valid chain (valid: %r): %s" % (ch, succ[:8], desc))
    mn = min(len(s) for s in succ)
    if len(ch) != mn:
        ctx.fail("adapt/not-shortest", "returned chain %r has %d adapters, a chain with %d exists (%r): %s"
                 % (ch, len(ch), mn, [s for s in succ if len(s) == mn][:3], desc))
    if mn == 1:
        chosenF = offs[ch[0]][0]
        for s in succ:
            if len(s) == 1:
                F2 = offs[s[0]][0]
                # (STRICTLY more specific: ABC registrations can make two classes subclasses of each other)
                if F2 is not chosenF and issubclass(F2, chosenF) and not issubclass(chosenF, F2):
                    ctx.fail("adapt/less-specific", "offer %r (for %s) chosen although offer %r for the more specific %s succeeds: %s"
                             % (ch, chosenF.__name__, s, F2.__name__, desc))
    if mode == "supports" and other is not adaptee:
        ctx.fail("traits/shadow", "Supports: name_ is not the original object: %s" % desc)
    if mode == "adaptsto" and other is not adaptee:
        ctx.fail("traits/shadow", "AdaptsTo: the attribute does not hold the original object: %s" % desc)


def stages(tier):
    # these inputs are tiny (<= 7 offers): a case normally takes ~1 ms, so 3 s is already a 1000-fold margin
    return [{"name": "cases", "kind": "hyp", "strategy": strategy, "run": run, "watchdog_s": 3,
             "examples": {"quick": 24000, "thorough": 800000}, "shards": 16}]
