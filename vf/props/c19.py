"""C19 — a failing user callback never leaves an object half-updated.

Fault enumeration: Hypothesis draws (prefix history, operation, follow-up history); the fault-free run
COUNTS the invocations n of harness-owned user callbacks during the operation; then for EVERY k <= n and
every exception type in {TraitError, ValueError, AttributeError, RuntimeError} the prefix is replayed on
a fresh twin and the k-th invocation raises.
Oracle (all-or-nothing): an outcome-deciding callback => post-state == pre-state and the exception
reaches the caller unchanged or as TraitError; a change handler => post-state == fault-free post-state,
no exception, every other handler ran; in both cases the follow-up history behaves exactly as on a twin
that never saw the failure; and (metamorphic) the four exception types lead to the same state.
"""
import copy
import warnings

from hypothesis import strategies as st

from traits.api import (HasTraits, TraitType, TraitError, List, Dict, Set, Str, Int, Any, Union, Either, Trait, Property,
                        Supports, Instance, cached_property, push_exception_handler, pop_exception_handler)
from traits.api import PrototypedFrom as T_PrototypedFrom
from traits.adaptation.api import AdaptationManager, set_global_adaptation_manager, get_global_adaptation_manager
from traits.observation.api import push_exception_handler as opush, pop_exception_handler as opop

ID = "C19"
LEVEL = "fault_enumeration"
RULE = ("Hypothesis draws (prefix of <=4 ops, one of 34 operations incl. quiet single-attribute sets and adapt='default', "
        "follow-up of <=5 ops + a fixed closing probe, handler logs of every later step compared); for each, every callback ordinal k "
        "of the operation x 4 exception types is injected (all enumerated); one evaluation = one injected run; non-trivial = "
        "k >= 2 or the operation has >= 2 callback sites; distinct by (case, k, exception type) digest")
ASSUMPTIONS = ["in a Union/Either a raising alternative is, by design, a rejecting alternative: admissible states are the pre-state "
               "or the state produced when that alternative rejects",
               "materialising a default during the faulted operation is not an effect by itself (unset and stored default read the "
               "same); snapshots normalise unset -> declared default for constant defaults",
               "raw TraitList.notifiers callables are documented as 'expected not to raise' and are not fault targets",
               "a callback failing inside a sync_trait propagation decides the partner's assignment only; the four exception types "
               "must then lead to the same state"]

PLAN = {"k": None, "exc": None, "count": 0, "sites": []}
LOG = []
class CodedRuntimeError(RuntimeError):
    """A RuntimeError whose first argument is not a string (error code first)."""

    def __init__(self, msg):
        super().__init__(17, msg)


EXCS = {"TraitError": TraitError, "ValueError": ValueError, "AttributeError": AttributeError, "RuntimeError": RuntimeError,
        "CodedRuntimeError": CodedRuntimeError}


def tick(site):
    PLAN["count"] += 1
    PLAN["sites"].append(site)
    if PLAN["k"] is not None and PLAN["count"] == PLAN["k"]:
        raise PLAN["exc"]("injected@" + site)


class Even(TraitType):
    default_value = 0

    def validate(self, obj, name, value):
        tick("Even.validate")
        if isinstance(value, int) and value % 2 == 0:
            return value
        self.error(obj, name, value)


def fnval(obj, name, value):
    tick("fnval")
    if isinstance(value, str):
        return value
    raise TraitError("no")


class IA(HasTraits):
    pass


class IB(HasTraits):
    pass


class IC(HasTraits):
    pass


class Ad1(HasTraits):
    adaptee = Any


class Ad2(HasTraits):
    adaptee = Any


class Ad2c(Ad2, IC):
    pass


class Partner(HasTraits):
    e = Even
    le = List(Even)


def build():
    class O(HasTraits):
        e = Even
        le = List(Even)
        de = Dict(Str, Even)
        se = Set(Even)
        # containers with NON-EMPTY declared defaults: building the default validates its items (user callbacks)
        led = List(Even, [2, 4])
        ded = Dict(Str, Even, {"a": 2, "b": 4})
        sed = Set(Even, {2, 4})
        u = Union(Even, Str)
        ei = Either(Even, Trait("", fnval))
        base = Int(1)
        dyn = Int
        dynv = Even
        fac = Any(factory=lambda: (tick("factory"), [1])[1])
        p = Property(Int, observe="e")
        pdep = Property(Int, depends_on="e")
        sup = Supports(IC)
        supd = Instance(IC, adapt="default")
        t = Int
        tl = List(Int)
        q = Property
        # a prototyped attribute: its values are validated by the prototype's trait (a ticking user validator)
        proto = Instance(Partner)
        pe = T_PrototypedFrom("proto", "e")

        def _dyn_default(self):
            tick("dyn_default")
            return self.base * 10

        def _dynv_default(self):
            tick("dynv_default")
            return self.base * 10

        def _dynv_changed(self, new):
            LOG.append("dynv")

        @cached_property
        def _get_p(self):
            tick("getter")
            return self.e + 1

        @cached_property
        def _get_pdep(self):
            tick("getter_dep")
            return self.e * 2

        def _get_q(self):
            tick("qget")
            return self.__dict__.get("_q", 0)

        def _set_q(self, v):
            tick("qset")
            self.__dict__["_q"] = v

        def _e_changed(self, old, new):
            tick("static_handler")
            LOG.append("static")
    o = O()
    o.on_trait_change(lambda: (tick("otc_handler"), LOG.append("otc")), "e")
    o.observe(lambda ev: (tick("obs_handler"), LOG.append("obs")), "e")
    o.on_trait_change(lambda: (tick("items_handler"), LOG.append("items")), "le_items")
    o.observe(lambda ev: (tick("obs_items_handler"), LOG.append("obs_items")), "le.items")
    o.on_trait_change(lambda: LOG.append("pdep"), "pdep")
    for cn in ("led", "ded", "sed"):
        o.on_trait_change(lambda: LOG.append("cdef"), cn)
    o.proto = Partner()
    o.on_trait_change(lambda: LOG.append("pe"), "pe")
    partner = Partner()
    o.sync_trait("t", partner, "e", mutual=True)
    o.sync_trait("tl", partner, "le", mutual=True)
    o.__dict__["_partner"] = partner
    return o


DEFAULTS = {"led": [2, 4], "ded": {"a": 2, "b": 4}, "sed": {2, 4}, "e": 0, "le": [], "de": {}, "se": set(), "u": 0, "ei": 0, "q": "<unset>", "t": 0, "tl": [], "base": 1}


def snapshot(o):
    d = {}
    for n, dv in DEFAULTS.items():
        v = o.__dict__.get(n, dv)
        d[n] = (copy.deepcopy(list(v)) if isinstance(v, list) else dict(v) if isinstance(v, dict) else set(v) if isinstance(v, set) else v)
    d["_q"] = o.__dict__.get("_q", "<unset>")
    d["dyn"] = o.__dict__.get("dyn", "<unset>")
    d["dynv"] = o.__dict__.get("dynv", "<unset>")
    d["fac"] = copy.deepcopy(o.__dict__.get("fac", "<unset>"))
    d["cache_p"] = o.__dict__.get("_traits_cache_p", "<unset>")
    d["cache_pdep"] = tuple(sorted((k, repr(v)) for k, v in o.__dict__.items() if k.startswith("_traits_cache_pdep")))
    d["sup"] = type(o.__dict__.get("sup")).__name__
    d["supd"] = type(o.__dict__.get("supd")).__name__
    d["sync-records"] = tuple(sorted((k_, len(v_)) for k_, v_ in (o.__dict__.get("__sync_trait__") or {}).items() if k_ != ""))
    p = o.__dict__["_partner"]
    d["partner.e"] = p.__dict__.get("e", 0)
    d["partner.le"] = list(p.__dict__.get("le", []))
    d["pe-local"] = o.__dict__.get("pe", "<unset>")
    d["proto.e"] = o.proto.__dict__.get("e", 0)
    d["pe-listener"] = repr(sorted((o.__dict__.get("__listener_traits__") or {}).keys())) if "__listener_traits__" in o.__dict__ else \
        repr(sorted(k_ for k_ in (o.__dict__.get("__traits_listener__") or {})))
    d["notifiers"] = tuple(len(o._trait(n, 0)._notifiers(False) or []) for n in ("e", "le", "t", "tl", "dynv"))
    return d


OPS = {
    "set e": lambda o: setattr(o, "e", 4),
    "set e bad": lambda o: setattr(o, "e", 3),
    "le.extend": lambda o: o.le.extend([6, 8, 10]),
    "le.append": lambda o: o.le.append(6),
    "le slice": lambda o: o.le.__setitem__(slice(0, 1), [6, 8]),
    "le extslice": lambda o: o.le.__setitem__(slice(0, None, 2), [12] * len(o.le[::2])),
    "de.update": lambda o: o.de.update({"b": 4, "c": 6}),
    "de.setdefault": lambda o: o.de.setdefault("n", 4),
    "se.update": lambda o: o.se.update([2, 4, 6]),
    "se ^=": lambda o: o.se.__ixor__({2, 8}),
    # the METHOD forms, with operands that overlap the current members and bring several new items
    "se.symmetric_difference_update": lambda o: o.se.symmetric_difference_update([2, 8, 10]),
    "se |=": lambda o: o.se.__ior__({2, 8, 10}),
    "le +=": lambda o: o.le.__iadd__([6, 8]),
    "le.insert": lambda o: o.le.insert(0, 6),
    "de |=": lambda o: o.de.__ior__({"b": 4, "c": 6}),
    "u set via 1st": lambda o: setattr(o, "u", 4),
    "u set via 2nd": lambda o: setattr(o, "u", "s"),
    "ei via 2nd": lambda o: setattr(o, "ei", "s"),
    "read dyn": lambda o: o.dyn,
    "read dynv": lambda o: o.dynv,
    "set dynv": lambda o: setattr(o, "dynv", 4),
    "set dynv bad": lambda o: setattr(o, "dynv", 3),
    "read fac": lambda o: o.fac,
    # deleting a stored value of a listened-to trait: the new default is computed for the notification
    "del led": lambda o: delattr(o, "led"), "del ded": lambda o: delattr(o, "ded"), "del sed": lambda o: delattr(o, "sed"),
    "read led": lambda o: list(o.led), "set led": lambda o: setattr(o, "led", [6, 8]),
    "del dynv": lambda o: delattr(o, "dynv"),
    "del dyn": lambda o: delattr(o, "dyn"),
    "read p": lambda o: o.p,
    "read pdep": lambda o: o.pdep,
    "set pe": lambda o: setattr(o, "pe", 4),
    "set pe bad": lambda o: setattr(o, "pe", 3),
    "del pe": lambda o: delattr(o, "pe"),
    "q set": lambda o: setattr(o, "q", 3),
    "q get": lambda o: o.q,
    "sup adapt": lambda o: setattr(o, "sup", IA()),
    "supd adapt (adapt='default')": lambda o: setattr(o, "supd", IA()),
    # quiet assignments, ONE attribute each (a multi-attribute trait_set is a sequence of assignments, not one operation)
    "trait_setq": lambda o: o.trait_setq(e=8),
    "trait_setq bad": lambda o: o.trait_setq(e=3),
    "trait_set quiet property": lambda o: o.trait_set(trait_change_notify=False, q=5),
    "trait_set quiet union": lambda o: o.trait_set(trait_change_notify=False, u=6),
    "trait_set quiet list": lambda o: o.trait_set(trait_change_notify=False, le=[2, 4]),
    "assign list": lambda o: setattr(o, "le", [2, 2, 2]),
    "sync scalar": lambda o: setattr(o, "t", 4),
    "sync scalar bad": lambda o: setattr(o, "t", 3),
    "sync list": lambda o: o.tl.append(6),
    # a NEW synchronisation whose initial copy goes through the new partner's validator (the partner stays alive)
    "sync new partner": lambda o: o.sync_trait("e", o.__dict__.setdefault("_extra", Partner()), "e", mutual=False),
    "sync new partner mutual": lambda o: o.sync_trait("e", o.__dict__.setdefault("_extra", Partner()), "e"),
    "trait_set": lambda o: o.trait_set(e=8, base=3),
}
PREFIX = {
    "e=2": lambda o: setattr(o, "e", 2), "le=[2,4]": lambda o: setattr(o, "le", [2, 4]), "de.update": lambda o: o.de.update({"a": 2}),
    "se={2}": lambda o: o.se.update([2]), "read p": lambda o: o.p, "read pdep": lambda o: o.pdep, "read dyn": lambda o: o.dyn, "t=2": lambda o: setattr(o, "t", 2),
    "led=[6]": lambda o: setattr(o, "led", [6]), "ded={c:6}": lambda o: setattr(o, "ded", {"c": 6}), "sed={6}": lambda o: setattr(o, "sed", {6}),
    "dynv=4": lambda o: setattr(o, "dynv", 4), "dynv=6": lambda o: setattr(o, "dynv", 6), "dyn=7": lambda o: setattr(o, "dyn", 7),
    "pe=2": lambda o: setattr(o, "pe", 2), "proto.e=2": lambda o: setattr(o.proto, "e", 2),
    "tl=[2]": lambda o: setattr(o, "tl", [2]), "q=1": lambda o: setattr(o, "q", 1), "base=2": lambda o: setattr(o, "base", 2),
}
FOLLOW = {
    "e=6": lambda o: setattr(o, "e", 6), "le.append": lambda o: o.le.append(12), "read dyn": lambda o: o.dyn, "read dynv": lambda o: o.dynv,
    "read p": lambda o: o.p, "read pdep": lambda o: o.pdep, "e=10": lambda o: setattr(o, "e", 10), "read fac": lambda o: o.fac, "de[z]=2": lambda o: o.de.__setitem__("z", 2), "q=9": lambda o: setattr(o, "q", 9),
    "base=5": lambda o: setattr(o, "base", 5), "partner.e=8": lambda o: setattr(o.__dict__["_partner"], "e", 8), "t=6": lambda o: setattr(o, "t", 6),
    "partner.le.append": lambda o: o.__dict__["_partner"].le.append(4), "tl.append": lambda o: o.tl.append(8), "read t": lambda o: o.t,
    "read tl": lambda o: list(o.tl), "e=bad": lambda o: setattr(o, "e", 5),
    "read led": lambda o: list(o.led), "read ded": lambda o: dict(o.ded), "read sed": lambda o: sorted(o.sed), "led.append": lambda o: o.led.append(10),
    "proto.e=6": lambda o: setattr(o.proto, "e", 6), "proto.e=8": lambda o: setattr(o.proto, "e", 8), "read pe": lambda o: o.pe,
    "pe=10": lambda o: setattr(o, "pe", 10), "del pe": lambda o: delattr(o, "pe"),
}
PROBE = ("read p", "read pdep", "read dyn", "read dynv", "e=10", "read p", "read pdep", "e=6", "read p", "read pdep",
         "partner.e=8", "read t", "partner.le.append", "read tl", "read pe", "proto.e=6", "read pe", "proto.e=8", "read pe", "read led", "read ded", "read sed", "led.append", "read led")
HANDLER_SITES = {"static_handler": "static", "otc_handler": "otc", "obs_handler": "obs", "items_handler": "items",
                 "obs_items_handler": "obs_items"}
SYNC_OPS = ("sync scalar", "sync scalar bad", "sync list")


def strategy(tier):
    return st.fixed_dictionaries({
        "prefix": st.lists(st.sampled_from(sorted(PREFIX)), max_size=4),
        "op": st.sampled_from(sorted(OPS)),
        "follow": st.lists(st.sampled_from(sorted(FOLLOW)), min_size=1, max_size=5),
        "default_handler": st.booleans(),
    })


def run_with(case, k, exc):
    o = build()
    PLAN.update(k=None, exc=None, count=0, sites=[])
    for f in case["prefix"]:
        try:
            PREFIX[f](o)
        except TraitError:
            pass
    pre = snapshot(o)
    PLAN.update(k=k, exc=exc, count=0, sites=[])
    del LOG[:]
    err = None
    with warnings.catch_warnings():
        warnings.simplefilter("ignore")
        try:
            OPS[case["op"]](o)
        except Exception as e:
            err = e
    sites, log = list(PLAN["sites"]), list(LOG)
    PLAN.update(k=None, exc=None, count=0, sites=[])
    post = snapshot(o)
    fol = []
    for f in case["follow"]:
        del LOG[:]
        try:
            fol.append(("ok", repr(FOLLOW[f](o)), tuple(sorted(LOG))))      # (also WHICH handlers each later step reaches)
        except Exception as e:
            fol.append((type(e).__name__, tuple(sorted(LOG))))
    # closing probe, the same for every case: read every derived value, change the dependencies once more, read again
    # (a stale cache or a lost invalidation shows up here even when the generated follow-up did not look)
    for f in PROBE:
        del LOG[:]
        try:
            fol.append(("probe", f, repr(FOLLOW[f](o)), tuple(sorted(LOG))))
        except Exception as e:
            fol.append(("probe", f, type(e).__name__, tuple(sorted(LOG))))
    return pre, post, err, sites, log, fol, snapshot(o)


def diff(a, b):
    return {x: (a[x], b[x]) for x in a if a[x] != b[x]}


def run(case, ctx):
    mgr = AdaptationManager()
    mgr.register_factory(lambda a: (tick("factory1"), Ad1(adaptee=a))[1], IA, IB)
    mgr.register_factory(lambda a: (tick("factory2"), Ad2c(adaptee=a))[1], IB, IC)
    old_mgr = get_global_adaptation_manager()
    set_global_adaptation_manager(mgr)
    opush(handler=lambda ev: None, reraise_exceptions=False)
    # half of the cases run under the library's DEFAULT handler for on_trait_change / static handlers (which logs the
    # exception; the 'traits' logger is silenced), the other half under a quiet handler of ours
    import logging
    lg = logging.getLogger("traits")
    if not lg.handlers:
        lg.addHandler(logging.NullHandler())
    lg.propagate = False
    own_handler = not case.get("default_handler")
    if own_handler:
        push_exception_handler(handler=lambda *a: None, reraise_exceptions=False, main=True)
    else:
        ctx.label("library-default-exception-handler")
    ctx.evaluations -= 1
    try:
        pre0, post0, err0, sites0, log0, fol0, end0 = run_with(case, None, None)
        n = len(sites0)
        opname = case["op"]
        # twin that never ran the operation: the follow-up on the bare prefix
        nocase = dict(case, op="__noop__")
        OPS["__noop__"] = lambda o: None
        _, _, _, _, _, fol_noop, end_noop = run_with(nocase, None, None)
        for k in range(1, n + 1):
            site = sites0[k - 1]
            per_exc = {}
            for exc_name, exc in EXCS.items():
                ctx.add_evals(1)
                pre, post, err, sites, log, fol, end = run_with(case, k, exc)
                if k >= 2 or n >= 2:
                    ctx.nontrivial(key=[case, k, exc_name], sample={"case": case, "k": k, "exc": exc_name, "site": site})
                ctx.label("site:" + site)
                where = "op %r after prefix %r, callback #%d/%d (%s) raises %s" % (opname, case["prefix"], k, n, site, exc_name)
                per_exc[exc_name] = (post, fol, end, err is None)
                if opname in SYNC_OPS and site not in HANDLER_SITES:
                    # validator of the PARTNER inside the propagation: decides the partner's assignment only
                    if err is not None:
                        ctx.fail("sync/raised", "%s: the assignment raised %r" % (where, err))
                    continue
                if site in ("getter", "getter_dep") and not opname.startswith("read p"):
                    # a property getter invoked BY the change notification (a listened-to depends_on/observe property is
                    # recomputed when its dependency changes): same contract as a change handler - the operation is
                    # complete, nothing reaches the caller, later behaviour as if the failure never happened; only the
                    # property's own cache and its own listener's call may be missing
                    strip = lambda d: {k_: v_ for k_, v_ in d.items() if not k_.startswith("cache_")}
                    if err is not None:
                        ctx.fail("handler/exception-escaped", "%s: exception %r reached the caller" % (where, err))
                    if strip(post) != strip(post0):
                        ctx.fail("handler/operation-incomplete", "%s: state differs from the fault-free result: %r" % (where, diff(strip(post0), strip(post))))
                    if sorted(x for x in log if x not in ("pdep",)) != sorted(x for x in log0 if x not in ("pdep",)):
                        ctx.fail("handler/others-skipped", "%s: handlers run %r, fault-free run %r" % (where, log, log0))
                    if fol != fol0 or strip(end) != strip(end0):
                        ctx.fail("handler/later-behaviour", "%s: follow-up %r gives %r (end state differs %r); never-failed twin gives %r"
                                 % (where, case["follow"], fol, diff(strip(end0), strip(end)), fol0))
                    continue
                if site in HANDLER_SITES:
                    faulted = HANDLER_SITES[site]
                    if err is not None:
                        ctx.fail("handler/exception-escaped", "%s: exception %r reached the caller" % (where, err))
                    if post != post0:
                        ctx.fail("handler/operation-incomplete", "%s: state differs from the fault-free result: %r" % (where, diff(post0, post)))
                    want = sorted(x for x in log0 if x != faulted)
                    got = sorted(x for x in log if x != faulted)
                    if got != want:
                        ctx.fail("handler/others-skipped", "%s: handlers run %r, fault-free run %r" % (where, log, log0))
                    if fol != fol0 or end != end0:
                        ctx.fail("handler/later-behaviour", "%s: follow-up %r behaves %r / ends %r; never-failed twin: %r / %r"
                                 % (where, case["follow"], fol, diff(end0, end), fol0, {}))
                    continue
                # outcome-deciding callback
                in_union = opname in ("u set via 1st", "u set via 2nd", "ei via 2nd")
                if err is None:
                    if in_union or (post == post0 and False):
                        ctx.label("union-alternative-rejects")
                        continue
                    if post == post0:
                        ctx.fail("decider/swallowed", "%s: no exception reached the caller and the operation took full effect" % where)
                    ctx.fail("decider/swallowed-partial", "%s: no exception reached the caller; state change %r" % (where, diff(pre, post)))
                if not (type(err) is exc or isinstance(err, TraitError)):
                    ctx.fail("decider/exception-class", "%s: caller sees %r" % (where, err))
                if post != pre:
                    ctx.fail("decider/half-updated", "%s: operation raised %r but left %r" % (where, err, diff(pre, post)))
                if fol != fol_noop or end != end_noop:
                    ctx.fail("decider/later-behaviour", "%s: follow-up %r gives %r, end state differs %r; on a twin that never saw the "
                             "failure: %r" % (where, case["follow"], fol, diff(end_noop, end), fol_noop))
            # metamorphic: the exception type must not matter for the resulting state and later behaviour
            # (only where the exception is swallowed for every type: when it reaches the caller, e.g. from a Union
            #  alternative, the admissible states legitimately depend on whether it is a TraitError)
            ref = per_exc["TraitError"]
            for exc_name, got in per_exc.items():
                if got != ref and all(v[3] for v in per_exc.values()):
                    ctx.fail("metamorphic/exception-type", "op %r callback #%d (%s): raising %s leaves post/follow-up/end %r, raising "
                             "TraitError leaves %r" % (opname, k, site, exc_name, (diff(ref[0], got[0]), got[1], diff(ref[2], got[2])), ref[1]))
    finally:
        if own_handler:
            pop_exception_handler()
        opop()
        set_global_adaptation_manager(old_mgr)
        OPS.pop("__noop__", None)


# ---------------------------------------------------------------------------------------------------------------------
# stage `rehook`: a user callback that fails while an extended on_trait_change listener re-hooks itself onto a newly
# assigned intermediate object.  The callback (a `_name_default` method or a property getter of the NEW object) runs
# inside the library's own link-change handler, so the assignment itself is complete and raises nothing; whatever the
# listener managed to attach must still be taken off again when that object is replaced ("every subsequent operation
# behaves exactly as on an object that never saw the failure").  Expectations are absolute, not twin-based: after the
# object that saw the failure has been replaced, nothing on it calls the listener, the replacement is fully live, and a
# removal of the registration silences everything.
class Sensor(HasTraits):
    reading = Int


class BoardD(HasTraits):
    sensor = Instance(Sensor)

    def _sensor_default(self):
        tick("board_default")
        return Sensor()


class BoardG(HasTraits):
    _s = Instance(Sensor)
    sensor = Property(Instance(Sensor))

    def _get_sensor(self):
        tick("board_getter")
        return self._s

    def _set_sensor(self, v):
        old, self._s = self._s, v
        self.trait_property_changed("sensor", old, v)


REHOOK_NAMES = ["board.sensor.reading", "board:sensor.reading", "board.sensor:reading", "board:sensor:reading"]


def rehook_strategy(tier):
    return st.fixed_dictionaries({
        "name": st.sampled_from(REHOOK_NAMES), "kind": st.sampled_from(["default", "getter"]),
        "when": st.sampled_from([0, 1]), "mech": st.sampled_from(["call", "decorator"]),
        "later": st.lists(st.sampled_from(["old.sensor=new", "old.reading", "new.reading", "new.sensor=new", "board=again"]), max_size=4),
    })


def rehook_run(case, ctx):
    from traits.api import on_trait_change as otc_dec
    Board = BoardD if case["kind"] == "default" else BoardG
    name = case["name"]
    calls = []

    def fresh_board(explicit):
        if case["kind"] == "getter":
            return Board(_s=Sensor())
        return Board(sensor=Sensor()) if explicit else Board()

    if case["mech"] == "decorator":
        class O(HasTraits):
            board = Instance(HasTraits)

            @otc_dec(name)
            def _deep(self):
                calls.append("deep")
    else:
        class O(HasTraits):
            board = Instance(HasTraits)
    push_exception_handler(handler=lambda *a: None, reraise_exceptions=False, main=True)
    ctx.evaluations -= 1
    try:
        def attempt(k, exc):
            del calls[:]
            o = O()
            h = lambda: calls.append("deep")
            if case["mech"] == "call":
                o.on_trait_change(h, name)
            if case["when"] == 1:
                o.board = fresh_board(True)
            b = fresh_board(False)
            PLAN.update(k=k, exc=exc, count=0, sites=[])
            err = None
            try:
                o.board = b
            except Exception as e:
                err = e
            n = PLAN["count"]
            PLAN.update(k=None, exc=None, count=0, sites=[])
            return o, b, h, err, n
        _, _, _, err0, n = attempt(None, None)
        if err0 is not None:
            ctx.fail("rehook/fault-free-raised", "%r: assignment raised %r without any injected fault" % (case, err0))
        for k in range(1, n + 1):
            for exc_name, exc in EXCS.items():
                ctx.add_evals(1)
                ctx.nontrivial(key=[case, k, exc_name])
                ctx.label("site:rehook-" + case["kind"])
                o, b, h, err, _ = attempt(k, exc)
                where = "%r, callback #%d/%d raises %s during `o.board = b`" % (case, k, n, exc_name)
                if err is not None:
                    ctx.fail("handler/exception-escaped", "%s: %r reached the caller of the assignment" % (where, err))
                if o.board is not b:
                    ctx.fail("handler/operation-incomplete", "%s: the assignment did not take place" % where)
                b2 = fresh_board(True)
                o.board = b2                       # the object that saw the failure is replaced
                old, new = b, b2
                steps = ["old.sensor=new", "old.reading", "new.reading"] + list(case["later"]) + ["old.reading", "new.reading"]
                for stp in steps:
                    del calls[:]
                    if stp == "old.sensor=new":
                        old.sensor = Sensor()
                        want = 0
                    elif stp == "old.reading":
                        old.sensor.reading += 1
                        want = 0
                    elif stp == "new.reading":
                        new.sensor.reading += 1
                        want = 1
                    elif stp == "new.sensor=new":
                        new.sensor = Sensor()
                        want = None               # (whether a link change is reported depends on '.' / ':'; not judged here)
                    else:
                        old, new = new, fresh_board(True)
                        o.board = new
                        want = None
                    if want is not None and len(calls) != want:
                        ctx.fail("handler/later-behaviour", "%s: after the object was replaced, step %r of %r calls the listener %d time(s), "
                                 "expected %d" % (where, stp, steps, len(calls), want))
                if case["mech"] == "call":
                    o.on_trait_change(h, name, remove=True)
                    del calls[:]
                    new.sensor.reading += 1
                    b.sensor.reading += 1
                    new.sensor = Sensor()
                    o.board = fresh_board(True)
                    if calls:
                        ctx.fail("handler/later-behaviour", "%s: the listener is still called %d time(s) after its removal" % (where, len(calls)))
    finally:
        pop_exception_handler()
        PLAN.update(k=None, exc=None, count=0, sites=[])


def stages(tier):
    return [{"name": "inject", "kind": "hyp", "strategy": strategy, "run": run,
             "examples": {"quick": 8000, "thorough": 100000}, "shards": 16},
            {"name": "rehook", "kind": "hyp", "strategy": rehook_strategy, "run": rehook_run,
             "examples": {"quick": 400, "thorough": 8000}, "shards": 4}]
