"""C20 — synchronised traits converge and stop when unsynchronised.

Three objects with Int / Range / List(Int) / List(Int, maxlen) traits; histories of sync_trait (mutual /
one-way, aliases, several partners), remove=True, assignments, every list mutator (incl. extended
slices, sort, reverse, *=), dropping a partner + gc.collect(), then new links.
Oracle: a model of DIRECTED edges and a simulation of the documented propagation (change detection,
re-entrancy lock, partners that reject a value are skipped): after every step every attribute must
hold exactly the model's value - in particular both sides of a mutual link are equal, attributes not
reachable from the change are unchanged (which detects a link that survives its removal) - no
exception is raised or routed to the notification exception handler, and each attribute's handlers
fire at most once per step.
"""
import gc

from hypothesis import strategies as st

from traits.api import HasTraits, Any, Int, List, Range, TraitError, push_exception_handler, pop_exception_handler

ID = "C20"
LEVEL = "exploration"
RULE = ("Hypothesis histories (<=25 steps) over sync/unsync (mutual and one-way, 8 attribute pairings incl. aliases and stricter "
        "partners, re-issuing an existing link with another flag/direction, removing one direction), scalar and whole-list "
        "assignments, 16 list mutators, partner collection; non-trivial = history containing a "
        "list mutation other than append, an unlink, a partner collection or a rejecting partner, with at least one link; "
        "distinct by digest")
ASSUMPTIONS = ["after an independent change of the target of a ONE-WAY list link the two lists legitimately differ; in-place "
               "mutations of the source are then only required to terminate quietly until the next whole-value assignment",
               "dispatch on the calling thread; CPython reference counting makes partner collection deterministic"]

UNKNOWN = object()


class A(HasTraits):
    v = Int
    w = Int
    r = Range(0, 10)
    xs = List(Int)
    ys = List(Int)
    zs = List(Int, maxlen=3)
    # "taps": non-list attributes that may be made ONE-WAY partners of the list traits (they take whole values only and feed
    # nothing back; they are not part of the model - the list partners must behave as if the taps were not there)
    tap_xs = Any
    tap_ys = Any
    tap_zs = Any

    def _ys_default(self):
        # (a List trait whose default comes from a method is a List trait like any other)
        return []


SCALARS = ("v", "w", "r")
LISTS = ("xs", "ys", "zs")
PAIRS = [["v", "v"], ["v", "w"], ["v", "r"], ["r", "v"], ["xs", "xs"], ["xs", "ys"], ["xs", "zs"], ["zs", "xs"], ["ys", "ys"],
         ["ys", "xs"]]
MUT = ["append", "pop", "insert", "extend", "remove", "reverse", "sort", "clear", "setitem", "delitem", "slice", "imul",
       "extslice", "delext", "iadd", "slice_grow"]

I2 = st.integers(0, 2)
OP = st.one_of(
    st.tuples(st.just("set"), I2, st.sampled_from(SCALARS), st.integers(0, 14)),
    st.tuples(st.just("set"), I2, st.sampled_from(SCALARS), st.integers(0, 14)),
    st.tuples(st.just("setlist"), I2, st.sampled_from(LISTS), st.lists(st.integers(0, 5), max_size=4)),
    st.tuples(st.just("lop"), I2, st.sampled_from(LISTS), st.sampled_from(MUT), st.integers(-3, 3), st.integers(0, 5)),
    st.tuples(st.just("lop"), I2, st.sampled_from(LISTS), st.sampled_from(MUT), st.integers(-3, 3), st.integers(0, 5)),
    st.tuples(st.just("lop"), I2, st.sampled_from(LISTS), st.sampled_from(MUT), st.integers(-3, 3), st.integers(0, 5)),
    st.tuples(st.just("sync"), I2, I2, st.sampled_from(PAIRS), st.booleans()),
    st.tuples(st.just("sync"), I2, I2, st.sampled_from(PAIRS), st.booleans()),
    st.tuples(st.just("unsync"), st.integers(0, 9)),
    # the same pair again: re-issue an existing link with another direction / mutual flag, or take one direction away
    st.tuples(st.just("resync"), st.integers(0, 9), st.booleans(), st.booleans()),
    st.tuples(st.just("unsync1"), st.integers(0, 9), st.booleans()),
    st.tuples(st.just("gc"), I2),
    # a one-shot handler on objs[t].v that REMOVES a link (chosen among the live ones) when it is called - i.e. possibly in
    # the middle of a propagation that is walking that very link table
    st.tuples(st.just("arm_unlink"), I2, st.integers(0, 9)), st.tuples(st.just("arm_unlink"), I2, st.integers(0, 9)),
    # a one-shot handler on objs[t].v that DROPS another object (its last reference) when called - a partner may then be
    # collected while a propagation is walking over it
    st.tuples(st.just("arm_drop"), I2, I2),
    st.tuples(st.just("tap"), I2, st.sampled_from(LISTS), I2),
).map(list)


FANOUT = {
    # several partners on one trait, the stricter one registered first
    "scalar": [["sync", 0, 1, ["v", "r"], True], ["sync", 0, 2, ["v", "v"], True]],
    "list": [["sync", 0, 1, ["xs", "zs"], True], ["sync", 0, 2, ["xs", "xs"], True]],
    "scalar-one-way": [["sync", 0, 1, ["v", "r"], False], ["sync", 0, 2, ["v", "w"], False]],
    # two partners on objs[0].v; a handler of the FIRST partner drops the second object / removes the second link while
    # objs[0] is still walking its partners
    "drop-later-partner": [["sync", 0, 1, ["v", "v"], True], ["sync", 0, 2, ["v", "w"], True], ["arm_drop", 1, 2]],
    "unlink-later-partner": [["sync", 0, 1, ["v", "v"], True], ["sync", 0, 2, ["v", "w"], True], ["arm_unlink", 1, 1]],
}


def strategy(tier):
    return st.fixed_dictionaries({"ops": st.lists(OP, min_size=2, max_size=25),
                                  "prelude": st.sampled_from([None, None, None, "scalar", "list", "scalar-one-way", "drop-later-partner", "unlink-later-partner"]),
                                  # how each successive sync_trait call is SPELLED: [omit the alias argument when it equals the
                                  # trait name, issue the removal of a mutual link from the partner's side]
                                  # non-list one-way partners of list traits, attached BEFORE the first generated link
                                  "taps": st.lists(st.tuples(I2, st.sampled_from(LISTS), I2).map(list), max_size=2),
                                  "spell": st.lists(st.tuples(st.booleans(), st.booleans()).map(list), min_size=6, max_size=6)})


def accepts(name, val):
    if name == "r":
        return 0 <= val <= 10
    if name == "zs":
        return len(val) <= 3
    return True


def list_op(l, m, i, x):
    """Apply mutator m to list l (TraitListObject or builtin list)."""
    if m == "append":
        l.append(x)
    elif m == "pop":
        l.pop(i)
    elif m == "insert":
        l.insert(i, x)
    elif m == "extend":
        l.extend([x, x + 1])
    elif m == "iadd":
        l += [x]
    elif m == "remove":
        l.remove(x)
    elif m == "reverse":
        l.reverse()
    elif m == "sort":
        l.sort()
    elif m == "clear":
        l.clear()
    elif m == "setitem":
        l[i] = x
    elif m == "delitem":
        del l[i]
    elif m == "slice":
        l[i:i + 2] = [x]
    elif m == "slice_grow":
        l[i:i + 1] = [x, x, x]
    elif m == "imul":
        l *= 2 if len(l) < 4 else 0
    elif m == "extslice":
        l[::2] = [x] * len(l[::2])
    elif m == "delext":
        del l[::2]


def run(case, ctx):
    objs = [A(), A(), A()]
    for i, o in enumerate(objs):
        o.__dict__["_n"] = i
    spell = case.get("spell") or [[False, False]]
    ncall = [0]

    def do_sync(i, n, j, a, **kw):
        """One sync_trait call in this case's next spelling (same meaning, different way of writing it)."""
        omit, flip = spell[ncall[0] % len(spell)]
        ncall[0] += 1
        if flip and kw.get("remove") and kw.get("mutual", True):
            i, n, j, a = j, a, i, n          # a mutual link is symmetric: remove it from the other side
            ctx.label("mutual-link-removed-from-the-partner-side")
        if omit and n == a:
            ctx.label("alias-omitted")
            return objs[i].sync_trait(n, objs[j], **kw)
        return objs[i].sync_trait(n, objs[j], a, **kw)
    M = {(i, n): (0 if n in SCALARS else []) for i in range(3) for n in SCALARS + LISTS}
    edges = set()          # (i, name, j, alias): a change of objs[i].name is copied to objs[j].alias
    links = []
    calls = {}
    err = []
    reconv = set()         # keys reached twice by one item event (F32)
    single = {}            # what one application of the event gives there

    def mk(i, n):
        def h(obj, name, old, new):
            calls[(i, name)] = calls.get((i, name), 0) + 1
        return h
    for i, o in enumerate(objs):
        for n in SCALARS + LISTS:
            o.on_trait_change(mk(i, n), n)
        for n in LISTS:
            o.on_trait_change(mk(i, n + "_items"), n + "_items")
    del o          # (the loop variable would keep objs[2] alive and defeat the partner-collection steps)
    push_exception_handler(handler=lambda o, n, old, new: err.append((n, old, new)), reraise_exceptions=False, main=True)
    interesting = False

    def out_edges(key):
        return sorted((j, a) for (i, n, j, a) in edges if (i, n) == key)

    def m_assign(key, val, locked):
        """Model of `obj.name = val` arriving through a link (or directly)."""
        if objs[key[0]] is None:
            return
        if not accepts(key[1], val):
            ctx.label("partner-rejects")
            return "rejected"
        old = M[key]
        M[key] = list(val) if isinstance(val, list) else val
        if old is not UNKNOWN and old == val:
            return
        locked.add(key)
        for dst in out_edges(key):
            if dst not in locked:
                m_assign(dst, val, locked)
        locked.discard(key)

    def m_mutate(key, new_val, old_val, locked, visited=None):
        """Model of an in-place mutation of the list at key that turned old_val into new_val."""
        visited = set() if visited is None else visited
        M[key] = list(new_val)
        visited.add(key)
        single[key] = list(new_val)
        locked.add(key)
        for dst in out_edges(key):
            if dst in locked or objs[dst[0]] is None:
                continue
            cur = M[dst]
            if dst in visited:
                # F32: the links form a second path to a partner that already received this item event; it is not
                # locked any more, so the slice operation is replayed on it a second time
                ctx.label("reconvergent-path")
                reconv.add(dst)
                poison(dst, set(locked))
            elif cur is not UNKNOWN and cur == old_val:
                if accepts(dst[1], new_val):
                    m_mutate(dst, new_val, cur, locked, visited)
                else:
                    ctx.label("partner-rejects")      # stays as it was
            else:
                # diverged one-way target: the result of the replayed slice operation is unspecified, and so is
                # everything downstream of it
                ctx.label("diverged-target")
                poison(dst, set(locked))
        locked.discard(key)

    def poison(key, seen):
        if key in seen or objs[key[0]] is None:
            return
        seen.add(key)
        M[key] = UNKNOWN
        for dst in out_edges(key):
            poison(dst, seen)

    armed = {"link": None, "fired": None, "drop": None, "dropped": None}

    def adopt(key, seen):
        """What a propagation delivered along a link that was being removed is unspecified: take reality as the new baseline."""
        if key in seen or objs[key[0]] is None:
            return
        seen.add(key)
        got = getattr(objs[key[0]], key[1])
        M[key] = list(got) if key[1] in LISTS else got
        for dst in out_edges(key):
            adopt(dst, seen)

    ops = ([["tap"] + list(t) for t in case.get("taps") or []] + (FANOUT[case["prelude"]] if case.get("prelude") else [])
           + list(case["ops"]))
    if case.get("prelude"):
        ctx.label("fanout:" + case["prelude"])
    try:
        for op in ops:
            k = op[0]
            calls.clear()
            del err[:]
            reconv.clear()
            single.clear()
            what = "op=%r edges=%r" % (op, sorted(edges))
            raised = None
            try:
                if k == "resync":
                    if not links:
                        continue
                    i, n, j, a, _ = links[op[1] % len(links)]
                    op = ["sync", j, i, [a, n], op[2]] if op[3] else ["sync", i, j, [n, a], op[2]]
                    k = "sync"
                    interesting = True
                    ctx.label("resync")
                if k == "tap":
                    i, n, j = op[1], op[2], op[3]
                    if i == j or objs[i] is None or objs[j] is None:
                        continue
                    objs[i].sync_trait(n, objs[j], "tap_" + n, mutual=False)
                    ctx.label("non-list-partner-of-a-list-trait" + ("" if any(e[0] == i and e[1] == n for e in edges) else ":first"))
                    interesting = True
                    continue
                if k == "arm_drop":
                    t, j = op[1], op[2]
                    if t == j or objs[t] is None or objs[j] is None or armed["drop"] is not None:
                        continue
                    armed["drop"] = j

                    def one_shot_drop():
                        if armed["drop"] is not None and armed["dropped"] is None:
                            armed["dropped"] = armed["drop"]
                            objs[armed["drop"]] = None
                    objs[t].on_trait_change(one_shot_drop, "v")
                    ctx.label("drop-handler-armed")
                    continue
                if k == "arm_unlink":
                    t = op[1]
                    if not links or objs[t] is None or armed["link"] is not None:
                        continue
                    L_ = list(links[op[2] % len(links)])
                    if objs[L_[0]] is None or objs[L_[2]] is None:
                        continue
                    armed["link"] = L_

                    def one_shot():
                        if armed["link"] is L_ and armed["fired"] is None:
                            armed["fired"] = L_
                            i_, n_, j_, a_, mutual_ = L_
                            if objs[i_] is not None and objs[j_] is not None:
                                objs[i_].sync_trait(n_, objs[j_], a_, mutual=mutual_, remove=True)
                    objs[t].on_trait_change(one_shot, "v")
                    ctx.label("unlink-handler-armed")
                    continue
                if k == "set":
                    i, n, val = op[1], op[2], op[3]
                    if objs[i] is None:
                        continue
                    if not accepts(n, val):
                        continue
                    setattr(objs[i], n, val)
                    m_assign((i, n), val, set())
                elif k == "setlist":
                    i, n, val = op[1], op[2], op[3]
                    if objs[i] is None or not accepts(n, val):
                        continue
                    setattr(objs[i], n, list(val))
                    m_assign((i, n), list(val), set())
                elif k == "lop":
                    i, n, m, idx, x = op[1:6]
                    if objs[i] is None or M[(i, n)] is UNKNOWN:
                        continue
                    old = list(M[(i, n)])
                    new = list(old)
                    try:
                        list_op(new, m, idx, x)
                    except (IndexError, ValueError):
                        continue
                    if not accepts(n, new):
                        continue
                    list_op(getattr(objs[i], n), m, idx, x)
                    if new != old or m in ("reverse", "sort") and old:
                        m_mutate((i, n), new, old, set())
                    if m != "append" and edges:
                        interesting = True
                        ctx.label("list-mutation:" + m)
                elif k == "sync":
                    i, j, (n, a), mutual = op[1], op[2], op[3], op[4]
                    if i == j or objs[i] is None or objs[j] is None:
                        continue
                    if M[(i, n)] is UNKNOWN or M[(j, a)] is UNKNOWN:
                        continue
                    # the initial copies made by sync_trait itself (forward: partner.alias = self.name, only for a NEW
                    # forward link; then, for a new reverse link, self.name = partner.alias) raise if rejected, by design
                    fwd_new = (i, n, j, a) not in edges
                    if fwd_new and not accepts(a, M[(i, n)]):
                        # the partner rejects the initial copy: sync_trait raises - and must then have linked nothing
                        try:
                            do_sync(i, n, j, a, mutual=mutual)
                            ctx.fail("sync/initial-copy-accepted", "%s: the partner cannot hold %r but sync_trait did not raise" % (what, M[(i, n)]))
                        except TraitError:
                            pass
                        interesting = True
                        ctx.label("sync-refused")
                        # no edge in the model.  Probe at once: a value both sides could hold is assigned to the source -
                        # the state comparison at the end of this step shows whether a link was left behind
                        probe_val = 3 if n in SCALARS else [1]
                        setattr(objs[i], n, list(probe_val) if isinstance(probe_val, list) else probe_val)
                        m_assign((i, n), probe_val, set())
                        refused = True
                    else:
                        refused = False
                    if not refused:
                        back_val = M[(i, n)] if fwd_new else M[(j, a)]
                        if mutual and (j, a, i, n) not in edges and not accepts(n, back_val):
                            continue
                        do_sync(i, n, j, a, mutual=mutual)
                        new_edge = (i, n, j, a) not in edges
                        edges.add((i, n, j, a))
                        if new_edge:
                            # the initial copy: partner.alias = self.name
                            m_assign((j, a), M[(i, n)], set())
                        if mutual:
                            new_back = (j, a, i, n) not in edges
                            edges.add((j, a, i, n))
                            if new_back:
                                m_assign((i, n), M[(j, a)], set())
                        links.append([i, n, j, a, mutual])
                        ctx.label("link:" + ("mutual" if mutual else "one-way") + ("-alias" if n != a else ""))
                elif k == "unsync":
                    if not links:
                        continue
                    i, n, j, a, mutual = links.pop(op[1] % len(links))
                    if objs[i] is None or objs[j] is None:
                        continue
                    do_sync(i, n, j, a, mutual=mutual, remove=True)
                    edges.discard((i, n, j, a))
                    if mutual:
                        edges.discard((j, a, i, n))
                    interesting = True
                    ctx.label("unlink")
                elif k == "unsync1":
                    if not links:
                        continue
                    idx = op[1] % len(links)
                    i, n, j, a, mutual = links[idx]
                    if objs[i] is None or objs[j] is None:
                        continue
                    if op[2]:
                        i, n, j, a = j, a, i, n
                    do_sync(i, n, j, a, mutual=False, remove=True)
                    edges.discard((i, n, j, a))
                    if (j, a, i, n) in edges:
                        links[idx] = [j, a, i, n, False]
                    else:
                        links.pop(idx)
                    interesting = True
                    ctx.label("unlink-one-direction")
                elif k == "gc":
                    i = op[1]
                    if objs[i] is None or not any(e[0] == i or e[2] == i for e in edges):
                        continue
                    import weakref
                    w = weakref.ref(objs[i])
                    objs[i] = None
                    gc.collect()
                    if w() is not None:
                        ctx.fail("collect/partner-kept-alive", "%s: the dropped partner is kept alive (by a sync link?)" % what)
                    links = [l for l in links if l[0] != i and l[2] != i]
                    for e in list(edges):
                        if e[0] == i or e[2] == i:
                            edges.discard(e)
                    interesting = True
                    ctx.label("partner-collected")
            except RecursionError as e:
                ctx.fail("terminate/recursion", "%s: RecursionError" % what)
            except Exception as e:
                raised = e
            if armed["dropped"] is not None:
                # the armed handler ran during this step and dropped a (possibly linked) object
                j_ = armed["dropped"]
                armed["dropped"] = armed["drop"] = None
                gc.collect()
                links[:] = [l for l in links if l[0] != j_ and l[2] != j_]
                for e in list(edges):
                    if e[0] == j_ or e[2] == j_:
                        edges.discard(e)
                if armed["link"] is not None and j_ in (armed["link"][0], armed["link"][2]):
                    armed["link"] = None
                # (whatever was propagated THROUGH the dropped object in this step is unspecified: take reality as baseline)
                for key_ in list(M):
                    if objs[key_[0]] is not None:
                        got_ = getattr(objs[key_[0]], key_[1])
                        M[key_] = list(got_) if key_[1] in LISTS else got_
                interesting = True
                ctx.label("object-dropped-by-a-handler-during-a-change")
            if armed["fired"] is not None:
                # the armed handler ran during this step and removed its link
                i_, n_, j_, a_, mutual_ = armed["fired"]
                armed["fired"] = armed["link"] = None
                edges.discard((i_, n_, j_, a_))
                if mutual_:
                    edges.discard((j_, a_, i_, n_))
                links[:] = [l for l in links if l[:4] != [i_, n_, j_, a_] and not (mutual_ and l[:4] == [j_, a_, i_, n_])]
                seen_ = set()
                adopt((j_, a_), seen_)
                adopt((i_, n_), seen_)
                interesting = True
                ctx.label("link-removed-by-a-handler-during-a-change")
            if raised is not None:
                ctx.fail("quiet/raised", "%s raised %r" % (what, raised))
            if err:
                ctx.fail("quiet/exception-handler", "%s routed an exception to the notification exception handler: %r" % (what, err[:1]))
            for (i, n) in sorted(reconv):
                if objs[i] is None:
                    continue
                got = list(getattr(objs[i], n))
                c = max(calls.get((i, n + "_items"), 0), calls.get((i, n), 0))
                if got != single[(i, n)] or c > 1:
                    ctx.fail("state/doubled-update/reconvergent-links", "%s: objs[%d].%s is reached along two link paths and "
                             "had the item event applied twice: %r (one application gives %r), its handler ran %d times"
                             % (what, i, n, got, single[(i, n)], c))
            # ---- state equals the model
            for (i, n), want in M.items():
                if objs[i] is None or want is UNKNOWN:
                    continue
                got = getattr(objs[i], n)
                got = list(got) if n in LISTS else got
                if got != want:
                    linked = [(e) for e in edges if (e[0], e[1]) == (i, n) or (e[2], e[3]) == (i, n)]
                    b = "state/diverged" if linked else "state/unlinked-attribute-changed"
                    ctx.fail(b, "%s: objs[%d].%s is %r, model %r (links touching it: %r)" % (what, i, n, got, want, linked))
            for (i, n, j, a) in edges:
                if (j, a, i, n) in edges and objs[i] is not None and objs[j] is not None:
                    x, y = getattr(objs[i], n), getattr(objs[j], a)
                    if list(x) != list(y) if n in LISTS else x != y:
                        if M[(i, n)] is not UNKNOWN and M[(j, a)] is not UNKNOWN and accepts(a, M[(i, n)]) and accepts(n, M[(j, a)]):
                            ctx.fail("state/diverged", "%s: mutually linked objs[%d].%s=%r and objs[%d].%s=%r differ" % (what, i, n, x, j, a, y))
            for key, c in calls.items():
                if c > 1 and k in ("set", "setlist", "lop"):
                    ctx.fail("notify/more-than-once", "%s: handler of objs[%d].%s called %d times in one step" % (what, key[0], key[1], c))
    finally:
        pop_exception_handler()
    if interesting:
        ctx.nontrivial()


def stages(tier):
    return [{"name": "hist", "kind": "hyp", "strategy": strategy, "run": run,
             "examples": {"quick": 24000, "thorough": 100000}, "shards": 16}]
