"""C15 — the observe mini-language means what its grammar and tables say.

stage strings : EVERY string of <= N symbols over a 15-symbol DSL alphabet: accept/reject and meaning
stage derivs  : Hypothesis-generated derivations of the grammar (nesting depth <= 4) rendered in several
                spellings (whitespace, redundant brackets): meaning, equality of spellings, caching,
                end-to-end observe(add by one spelling) / observe(remove by another)
Oracle: an independently written tokenizer + recursive-descent recogniser + denotation (set of
root-to-node paths with notify/optional flags) derived from _dsl_grammar.lark and the user manual.
"""
import itertools
import re

from hypothesis import strategies as st

from traits.api import HasTraits, Instance, Int, List
from traits.observation.api import parse, compile_str, compile_expr
from traits.observation._named_trait_observer import NamedTraitObserver
from traits.observation._filtered_trait_observer import FilteredTraitObserver
from traits.observation._list_item_observer import ListItemObserver
from traits.observation._dict_item_observer import DictItemObserver
from traits.observation._set_item_observer import SetItemObserver
from traits.observation._metadata_filter import MetadataFilter
from traits.observation._anytrait_filter import anytrait_filter

ID = "C15"
LEVEL = "exploration"
RULE = ("strings: every string of <=5 (quick) / <=6 (thorough) symbols over {a b i items + * . : , [ ] space 1 _} (exhaustive), "
        "non-trivial = accepted string with >=2 elements or rejected string of length >=2; derivs: generated derivations x 4 "
        "spellings, non-trivial = derivation with a bracket group followed by a connector or nesting depth >=2; distinct by digest")
ASSUMPTIONS = ["the reference recogniser is my reading of _dsl_grammar.lark (formal rule: '*' only outside brackets, in terminal "
               "position); the prose rule of the manual additionally accepts bracketed terminal stars - that difference is "
               "counted as finding F12, not compared",
               "NAME is [a-zA-Z_]\\w* with Unicode \\w; whitespace is ignored between tokens only"]

NAME = re.compile(r"[a-zA-Z_]\w*")
WS = " \t\f\r\n"


class Reject(Exception):
    pass


def tokenize(s):
    i, out = 0, []
    while i < len(s):
        c = s[i]
        if c in WS:
            i += 1
            continue
        if c in "+*.:,[]":
            out.append(c)
            i += 1
            continue
        m = NAME.match(s, i)
        if not m:
            raise Reject(s)
        out.append(("N", m.group()))
        i = m.end()
    return out


class Parser:
    def __init__(self, toks):
        self.t, self.i = toks, 0

    def peek(self):
        return self.t[self.i] if self.i < len(self.t) else None

    def eat(self):
        x = self.peek()
        self.i += 1
        return x

    def parallel(self):
        left = self.series()
        while self.peek() == ",":
            self.eat()
            left = ("par", left, self.series())
        return left

    def series(self):
        left = self.element()
        while self.peek() in (".", ":"):
            c = self.eat()
            left = ("ser", left, c == ".", self.element())
        return left

    def element(self):
        t = self.peek()
        if t is None:
            raise Reject()
        if t == "[":
            self.eat()
            e = self.parallel()
            if self.eat() != "]":
                raise Reject()
            return ("grp", e)
        if t == "+":
            self.eat()
            n = self.eat()
            if not isinstance(n, tuple):
                raise Reject()
            return ("meta", n[1])
        if t == "*":
            self.eat()
            return ("any",)
        if isinstance(t, tuple):
            self.eat()
            return ("items",) if t[1] == "items" else ("trait", t[1])
        raise Reject()


def check_star(e, terminal, in_brackets, mode):
    k = e[0]
    if k == "any":
        if not terminal:
            raise Reject()
        if mode == "lark" and in_brackets:
            raise Reject()
    elif k == "grp":
        check_star(e[1], terminal, True, mode)
    elif k == "ser":
        check_star(e[1], False, in_brackets, mode)
        check_star(e[3], terminal, in_brackets, mode)
    elif k == "par":
        check_star(e[1], terminal, in_brackets, mode)
        check_star(e[2], terminal, in_brackets, mode)


def ref_parse(s, mode="lark"):
    toks = tokenize(s)
    p = Parser(toks)
    e = p.parallel()
    if p.i != len(toks):
        raise Reject()
    check_star(e, True, False, mode)
    return e


def leaves(e, notify):
    """Denotation: set of paths; node = (kind, name, notify, optional)."""
    k = e[0]
    if k == "trait":
        return {(("trait", e[1], notify, False),)}
    if k == "meta":
        return {(("meta", e[1], notify, None),)}
    if k == "any":
        return {(("any", None, notify, None),)}
    if k == "items":
        return {(("trait", "items", notify, True),), (("dict", None, notify, True),), (("list", None, notify, True),),
                (("set", None, notify, True),)}
    if k == "grp":
        return leaves(e[1], notify)
    if k == "par":
        return leaves(e[1], notify) | leaves(e[2], notify)
    if k == "ser":
        return {l + r for l in leaves(e[1], e[2]) for r in leaves(e[3], notify)}
    raise AssertionError(e)


def prefixes(paths):
    out = set()
    for p in paths:
        for i in range(1, len(p) + 1):
            out.add(p[:i])
    return out


def n_elements(e):
    k = e[0]
    if k in ("trait", "meta", "any", "items"):
        return 1
    if k == "grp":
        return n_elements(e[1])
    if k == "ser":
        return n_elements(e[1]) + n_elements(e[3])
    return n_elements(e[1]) + n_elements(e[2])


def node_desc(n):
    if isinstance(n, NamedTraitObserver):
        return ("trait", n.name, n.notify, n.optional)
    if isinstance(n, FilteredTraitObserver):
        if isinstance(n.filter, MetadataFilter):
            return ("meta", n.filter.metadata_name, n.notify, None)
        if n.filter is anytrait_filter:
            return ("any", None, n.notify, None)
    if isinstance(n, ListItemObserver):
        return ("list", None, n.notify, n.optional)
    if isinstance(n, DictItemObserver):
        return ("dict", None, n.notify, n.optional)
    if isinstance(n, SetItemObserver):
        return ("set", None, n.notify, n.optional)
    raise AssertionError(n)


def impl_paths(graphs):
    out = set()

    def walk(g, pre):
        p = pre + (node_desc(g.node),)
        out.add(p)
        for c in g.children:
            walk(c, p)
    for g in graphs:
        walk(g, ())
    return out


def judge_string(s, ctx):
    """Returns None or (bucket, message). Label bookkeeping via ctx."""
    try:
        r = ref_parse(s, "lark")
        rok = True
    except Reject:
        r, rok = None, False
    try:
        g = compile_str(s)
        iok = True
    except ValueError as e:
        g, iok, err = None, False, e
    except Exception as e:
        return ("reject/exception-class", "%r: raised %r instead of ValueError" % (s, e))
    if rok != iok:
        if not rok:
            try:
                ref_parse(s, "prose")
                prose = True
            except Reject:
                prose = False
            return ("accept/not-in-grammar", "%r is accepted but not generated by the grammar" % s)
        sig = ""
        if "unique" in str(err):
            sig = "/duplicate-branches"
        return ("accept/grammar-string-rejected" + sig, "%r is generated by the grammar but rejected: %s" % (s, err))
    if not rok:
        try:
            ref_parse(s, "prose")
        except Reject:
            return None
        # '*' in a terminal position but inside brackets: valid by the manual's prose rule and by the comment in the
        # grammar file ("[a:*,b]" is listed as valid), not generated by the formal rules, rejected by the parser
        return ("accept/terminal-star-in-brackets", "%r has '*' in a terminal position (documented as valid) but is rejected" % s)
    want = prefixes(leaves(r, True))
    got = impl_paths(g)
    if want != got:
        return ("meaning/paths", "%r: compiled pattern observes %r, documented semantics %r (only impl: %r, only ref: %r)"
                % (s, sorted(got), sorted(want), sorted(got - want), sorted(want - got)))
    return None


# ----------------------------------------------------------------------------- stage strings
ALPH = ["a", "b", "items", "+", "*", ".", ":", ",", "[", "]", " ", "1", "_", "i", "in"]          # ("in": a Python keyword is a NAME like any other)
MAXLEN = {"quick": 5, "thorough": 6}


def strings_gen(tier, shard, nshards):
    n = 0
    for first in itertools.product(ALPH, repeat=2):
        if n % nshards == shard:
            yield {"prefix": list(first), "maxlen": MAXLEN[tier]}
        n += 1
    if shard == 0:
        yield {"prefix": None, "maxlen": 1}     # the strings of length 0 and 1


def strings_run(case, ctx):
    if "s" in case:
        ctx.begin(case)
        p = judge_string(case["s"], ctx)
        if p:
            ctx.report(p[0], p[1], case)
        return
    n = nt = 0
    if case["prefix"] is None:
        todo = [""] + list(ALPH)
    else:
        pre = "".join(case["prefix"])
        todo = (pre + "".join(t) for L in range(0, case["maxlen"] - 1) for t in itertools.product(ALPH, repeat=L))
    for s in todo:
        n += 1
        p = judge_string(s, ctx)
        if p:
            ctx.report(p[0], p[1], {"s": s})
        try:
            r = ref_parse(s)
            if n_elements(r) >= 2:
                nt += 1
                if len(ctx.samples) < 3 and len(s) > 6:
                    ctx.samples.append({"s": s, "accepted": True})
        except Reject:
            if len(s) >= 2:
                nt += 1
    ctx.add_evals(n)
    ctx.nontrivial_count += nt


# ----------------------------------------------------------------------------- stage derivs
NAMES = ["a", "b", "c", "items2", "it", "_x", "a1", "a\u00e9", "in", "is", "not", "items"]


def ast_strategy():
    leaf = st.one_of(st.sampled_from(NAMES[:-1]).map(lambda n: ["trait", n]), st.just(["items"]),
                     st.sampled_from(["m", "items", "a"]).map(lambda n: ["meta", n]))
    return st.recursive(
        leaf,
        lambda ch: st.one_of(
            st.tuples(ch, st.booleans(), ch).map(lambda t: ["ser", t[0], t[1], t[2]]),
            st.tuples(ch, ch).map(lambda t: ["par", t[0], t[1]]),
        ),
        max_leaves=7)


def render(e, style, prec=0):
    """style: dict(ws=int seed, brackets=bool). prec: 0 top/parallel context, 1 series operand."""
    k = e[0]
    sp = style["sp"]
    if k == "trait":
        s = e[1]
    elif k == "items":
        s = "items"
    elif k == "meta":
        s = "+" + sp + e[1] if style.get("ws_after_plus") else "+" + e[1]
    elif k == "any":
        s = "*"
    elif k == "ser":
        # left-assoc: right operand that is itself a series needs brackets
        left = render(e[1], style, 1 if e[1][0] != "ser" else 0.5)
        right = render(e[3], style, 1)
        s = left + sp + ("." if e[2] else ":") + sp + right
        if prec >= 1:
            s = "[" + sp + s + sp + "]"
    elif k == "par":
        s = render(e[1], style, 0) + sp + "," + sp + render(e[2], style, 0)
        if prec > 0:
            s = "[" + sp + s + sp + "]"
    else:
        raise AssertionError(e)
    if style["brackets"] and k in ("trait", "items", "meta", "ser") and not has_star(e):
        s = "[" + s + "]"
    return s


def has_star(e):
    if e[0] == "any":
        return True
    if e[0] == "ser":
        return has_star(e[1]) or has_star(e[3])
    if e[0] == "par":
        return has_star(e[1]) or has_star(e[2])
    return False


def denote(e, notify):
    """Denotation of my AST (lists) directly, independent of any parser."""
    k = e[0]
    if k == "trait":
        if e[1] == "items":
            return denote(["items"], notify)
        return {(("trait", e[1], notify, False),)}
    if k == "meta":
        return {(("meta", e[1], notify, None),)}
    if k == "any":
        return {(("any", None, notify, None),)}
    if k == "items":
        return {(("trait", "items", notify, True),), (("dict", None, notify, True),), (("list", None, notify, True),),
                (("set", None, notify, True),)}
    if k == "par":
        return denote(e[1], notify) | denote(e[2], notify)
    if k == "ser":
        return {l + r for l in denote(e[1], e[2]) for r in denote(e[3], notify)}
    raise AssertionError(e)


def with_star(e, star):
    """Optionally put '*' in a terminal position outside brackets: e -> e . *  (series at top level)."""
    return ["ser", e, star == ".", ["any"]] if star else e


def derivs_strategy(tier):
    return st.fixed_dictionaries({"ast": ast_strategy(), "star": st.sampled_from([None, None, ".", ":"]),
                                  "star_alone": st.booleans()})


class Obj(HasTraits):
    pass


for _n in NAMES[:-1] + ["m_t"]:
    Obj.add_class_trait(_n, Instance(HasTraits))
Obj.add_class_trait("tagged", Int(m=True, items=True, a=True))


def notifier_population(o):
    tot = {}
    for nm in o.trait_names():
        t = o._trait(nm, 0)
        ns = t._notifiers(False) if t is not None else None
        tot[nm] = len(ns) if ns else 0
    return tot


def depth(e):
    if e[0] in ("ser",):
        return 1 + max(depth(e[1]), depth(e[3]))
    if e[0] == "par":
        return 1 + max(depth(e[1]), depth(e[2]))
    return 0


def derivs_run(case, ctx):
    e = case["ast"]
    if case["star"]:
        e = with_star(e, case["star"])
    elif case["star_alone"] and e[0] == "par":
        e = ["par", e[1], ["any"]]          # a, *   (terminal, outside brackets)
    spellings = [render(e, {"sp": "", "brackets": False}), render(e, {"sp": " ", "brackets": False}),
                 render(e, {"sp": "\t ", "brackets": False}), render(e, {"sp": "", "brackets": True}),
                 render(e, {"sp": " ", "brackets": True}),
                 # every character of the grammar's white space class (space, tab, form feed, CR, LF), alone and in runs
                 render(e, {"sp": "\f", "brackets": False}), render(e, {"sp": "\r\n", "brackets": False}),
                 render(e, {"sp": " \n\f\t", "brackets": True})]
    want = prefixes(denote(e, True))
    if depth(e) >= 2 or "[" in spellings[0]:
        ctx.nontrivial()
    graphs = []
    dup = False
    for i, s in enumerate(spellings):
        # my renderer's output must be in the grammar (soundness of the generator itself)
        try:
            ref_parse(s, "lark")
        except Reject:
            # bracketed spellings put the terminal star inside brackets: only the prose rule accepts those
            if "*" in s and case["star"] is None:
                ctx.label("star-inside-brackets-spelling")
                graphs.append(None)
                continue
            raise AssertionError("renderer produced a string outside the grammar: %r" % s)
        try:
            g = compile_str(s)
        except ValueError as err:
            sig = "/duplicate-branches" if "unique" in str(err) else ""
            if sig:
                dup = True
            ctx.fail("accept/grammar-string-rejected" + sig, "%r (derivation %r) is rejected: %s" % (s, e, err))
        except Exception as err:
            ctx.fail("reject/exception-class", "%r raised %r" % (s, err))
        got = impl_paths(g)
        if got != want:
            ctx.fail("meaning/paths", "%r: compiled pattern observes %r, documented semantics %r (only impl %r, only ref %r)"
                     % (s, sorted(got), sorted(want), sorted(got - want), sorted(want - got)))
        # caching: same string twice gives equal patterns, equal to an uncached compile
        if compile_str(s) != g or parse(s) != parse(s):
            ctx.fail("cache/unequal", "%r: two calls give unequal results" % s)
        fresh = compile_expr(getattr(parse, "__wrapped__", parse)(s))
        if fresh != g:
            ctx.fail("cache/mutated", "%r: cached pattern differs from a fresh compile" % s)
        graphs.append(g)
    # white space around the whole text: every character of the class, leading and trailing, alone ("name\n" is the
    # shape a fast path for simple names would see differently from the grammar)
    if graphs[0] is not None:
        for c in WS:
            for padded in (spellings[0] + c, c + spellings[0], c + spellings[0] + c + c):
                try:
                    gp = compile_str(padded)
                    via_parse = compile_expr(parse(padded))
                except ValueError as err:
                    ctx.fail("accept/grammar-string-rejected", "%r (derivation %r with white space around it) is rejected: %s" % (padded, e, err))
                except Exception as err:
                    ctx.fail("reject/exception-class", "%r raised %r" % (padded, err))
                if gp != graphs[0] or via_parse != graphs[0]:
                    ctx.fail("spelling/whitespace", "%r and %r compile to unequal patterns (compile_str %r, via parse %r)"
                             % (spellings[0], padded, sorted(impl_paths(gp)), sorted(impl_paths(via_parse))))
    # equivalent spellings: whitespace-only variants must compile to equal patterns
    base = graphs[0]
    for i in (1, 2):
        if graphs[i] is not None and graphs[i] != base:
            ctx.fail("spelling/whitespace", "%r and %r compile to unequal patterns" % (spellings[0], spellings[i]))
    # end-to-end: register with one spelling, remove with another
    o = Obj()
    before = notifier_population(o)
    h = lambda ev: None
    for i, j in ((0, 1), (2, 0), (3, 4), (0, 3)):
        if graphs[i] is None or graphs[j] is None:
            continue
        if (i, j) == (0, 3) and graphs[0] != graphs[3]:
            # extra brackets changed the structure of the pattern (not its meaning): removal by the other spelling is not
            # promised to match unless the patterns are equal - the statement says they are
            ctx.fail("spelling/brackets", "%r and %r (redundant brackets) compile to unequal patterns" % (spellings[0], spellings[3]))
        try:
            o.observe(h, spellings[i])
            o.observe(h, spellings[j], remove=True)
        except Exception as err:
            ctx.fail("spelling/removal", "observe(%r) then observe(%r, remove=True) raised %r" % (spellings[i], spellings[j], err))
        if notifier_population(o) != before:
            ctx.fail("spelling/removal", "observe(%r) then observe(%r, remove=True) left notifiers behind" % (spellings[i], spellings[j]))
    # the list form: [text, other text]; afterwards the text alone still means what it meant (cached patterns not mutated)
    if graphs[0] is not None:
        try:
            o.observe(h, [spellings[0], "c", "b"])
            o.observe(h, [spellings[0], "c", "b"], remove=True)
        except Exception as err:
            ctx.fail("list-form/raised", "observe(h, [%r, 'c', 'b']) / removal raised %r" % (spellings[0], err))
        if notifier_population(o) != before:
            ctx.fail("list-form/removal", "list-form registration of %r was not fully removed" % spellings[0])
        g_after = compile_str(spellings[0])
        if impl_paths(g_after) != want or g_after != compile_expr(getattr(parse, "__wrapped__", parse)(spellings[0])):
            ctx.fail("cache/mutated", "after observe(h, [%r, 'c', 'b']) the text alone compiles to %r (documented meaning %r)"
                     % (spellings[0], sorted(impl_paths(g_after)), sorted(want)))


# ----------------------------------------------------------------------------- stage fuzz (thorough): atheris on the parser
FUZZ_ALPH = ["a", "b", "items", "+", "*", ".", ":", ",", "[", "]", " ", "1", "_", "i", "\u00e9", "\t", "\f", "\n", "\r"]


def fuzz_decode(data):
    return "".join(FUZZ_ALPH[b % len(FUZZ_ALPH)] for b in bytes(data)[:24])


def fuzz_target(data, ctx):
    s = fuzz_decode(data)
    p = judge_string(s, ctx)
    if p:
        ctx.fail(p[0], p[1])
    if len(s) > 6:
        ctx.nontrivial(key=s, sample={"s": s})


def fuzz_replay(case, ctx):
    fuzz_target(bytes.fromhex(case["bytes_hex"]), ctx)


def stages(tier):
    extra = []
    if tier == "thorough":
        extra.append({"name": "fuzz", "kind": "fuzz", "target": fuzz_target, "run": fuzz_replay, "shards": 8, "max_len": 24,
                      "runs": {"quick": 20000, "thorough": 2000000},
                      "seeds": [bytes([0, 5, 1]), bytes([7 + 1, 0, 7, 1, 9, 6, 2]), bytes([2, 5, 3, 0])],
                      "instrument": ["traits.observation"]})
    return extra + [
        {"name": "strings", "kind": "enum", "batch": True, "gen": strings_gen, "run": strings_run, "shards": 16, "exhaustive": True},
        {"name": "derivs", "kind": "hyp", "strategy": derivs_strategy, "run": derivs_run,
         "examples": {"quick": 4000, "thorough": 100000}, "shards": 16},
    ]
