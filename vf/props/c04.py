"""C04 — container traits never hold an invalid element or an illegal length.

Hypothesis histories of every mutator (and whole-value assignment) on List/Dict/Set traits with
Int/Float/Str/Union inner traits, length bounds and nesting, with valid / convertible / invalid
items.  Oracle: (1) invariant — independent recursive predicate over every container of the object
after every step; (2) model — builtin containers on documented conversions decide whether the op is
legal (must succeed with the model's contents) or illegal (TraitError, nothing changed, nobody
notified).
"""
import copy
import gc
import operator

from hypothesis import strategies as st

from traits.api import HasTraits, List, Dict, Set, Int, Float, Str, Union, TraitError

ID = "C04"
LEVEL = "exploration"
RULE = ("Hypothesis histories (<=20 ops) over all list/dict/set mutators and whole-value assignment on 11 container "
        "traits (bounded, nested, Union items), incl. assignment of a detached deep copy filled without validation and of "
        "the container object of a dropped twin instance; ~70% of generated items are valid for the inner trait, the rest "
        "convertible, invalid, or EQUAL to a member but of another type; non-trivial = "
        "history containing an op with an invalid or convertible item, or a length-changing op at a length bound; "
        "distinct by digest")
ASSUMPTIONS = ["when the underlying builtin operation is itself illegal (bad index, missing key, wrong extended-slice size) "
               "either the builtin's exception class or TraitError is accepted",
               "inner-trait conversions are the documented ones: Int via __index__, Float via __float__/__index__"]

BIG = 10 ** 9

# spec language: "int" | "float" | "str" | ["union", [...]] | ["list", inner, minlen, maxlen] | ["dict", k, v] | ["set", inner]
SPECS = {
    "li": ["list", "int", 0, BIG],
    "lb": ["list", "int", 1, 4],
    "lf": ["list", "float", 0, BIG],
    "ll": ["list", ["list", "int", 0, BIG], 0, BIG],
    "lbb": ["list", ["list", "int", 0, 2], 0, 3],
    "lu": ["list", ["union", ["int", "str"]], 0, BIG],
    "di": ["dict", "str", "int"],
    "dl": ["dict", "int", ["list", "int", 0, BIG]],
    "df": ["dict", "float", "float"],
    "si": ["set", "int"],
    "sf": ["set", "float"],
    # declared with items=False (no `<name>_items` event): validated exactly like the others
    "dni": ["dict", "str", "int"],
    "dnl": ["dict", "int", ["list", "int", 0, BIG]],
    "lni": ["list", "int", 0, BIG],
    "l0": ["list", "int", 0, 0],          # maxlen=0: must stay empty for ever
    "ll0": ["list", ["list", "int", 0, 0], 0, BIG],
}


class Idx:
    def __index__(self):
        return 7

    def __repr__(self):
        return "Idx()"


class Holder(HasTraits):
    li = List(Int)
    lb = List(Int, minlen=1, maxlen=4, value=[0])
    lf = List(Float)
    ll = List(List(Int))
    lbb = List(List(Int, maxlen=2), maxlen=3)
    lu = List(Union(Int, Str))
    di = Dict(Str, Int)
    dl = Dict(Int, List(Int))
    df = Dict(Float, Float)
    si = Set(Int)
    sf = Set(Float)
    dni = Dict(Str, Int, items=False)
    dnl = Dict(Int, List(Int), items=False)
    lni = List(Int, items=False)
    l0 = List(Int, maxlen=0)
    ll0 = List(List(Int, maxlen=0))
    # declared with a lower bound but WITHOUT a default of its own (the implicit [] is too short): whatever reading it
    # does, it never hands out a list that violates the bound
    lnd = List(Int, minlen=2)
    lnd1 = List(Int, minlen=1, maxlen=3)


class FalsyHolder(Holder):
    """An owner whose truth value is False (a registry-like model with __len__ == 0): nothing may depend on `if owner:`."""

    def __len__(self):
        return 0


def dec(x):
    if isinstance(x, list):
        return [dec(i) for i in x]
    if isinstance(x, dict):
        if "idx" in x:
            return Idx()
        if "t" in x:
            return tuple(dec(i) for i in x["t"])
    return x


class Reject(Exception):
    """Model: the trait does not accept this value."""


def conv(spec, x):
    """Documented conversion of x for the trait described by spec, or Reject."""
    if spec == "int":
        if type(x) is int:
            return x
        if isinstance(x, (float, str, bytes)) or x is None:
            raise Reject()
        try:
            return int(operator.index(x))
        except TypeError:
            raise Reject()
    if spec == "float":
        if type(x) is float:
            return x
        if isinstance(x, (str, bytes)) or x is None:
            raise Reject()
        if hasattr(type(x), "__float__") or hasattr(type(x), "__index__"):
            try:
                return float(x) if hasattr(type(x), "__float__") else float(operator.index(x))
            except TypeError:
                raise Reject()
        raise Reject()
    if spec == "str":
        if isinstance(x, str):
            return x
        raise Reject()
    kind = spec[0]
    if kind == "union":
        for alt in spec[1]:
            try:
                return conv(alt, x)
            except Reject:
                pass
        raise Reject()
    if kind == "list":
        if not isinstance(x, list):
            raise Reject()
        out = [conv(spec[1], i) for i in x]
        if not spec[2] <= len(out) <= spec[3]:
            raise Reject()
        return out
    if kind == "dict":
        if not isinstance(x, dict):
            raise Reject()
        return {conv(spec[1], k): conv(spec[2], v) for k, v in x.items()}
    if kind == "set":
        if not isinstance(x, set):
            raise Reject()
        return {conv(spec[1], i) for i in x}
    raise AssertionError(spec)


def valid(spec, v):
    """Independent domain predicate on a *stored* value (exact types)."""
    if spec == "int":
        return type(v) is int
    if spec == "float":
        return type(v) is float
    if spec == "str":
        return isinstance(v, str)
    kind = spec[0]
    if kind == "union":
        return any(valid(a, v) for a in spec[1])
    if kind == "list":
        return isinstance(v, list) and spec[2] <= len(v) <= spec[3] and all(valid(spec[1], i) for i in v)
    if kind == "dict":
        return isinstance(v, dict) and all(valid(spec[1], k) and valid(spec[2], w) for k, w in v.items())
    if kind == "set":
        return isinstance(v, set) and all(valid(spec[1], i) for i in v)
    raise AssertionError(spec)


def plain(v):
    if isinstance(v, dict):
        return {k: plain(x) for k, x in v.items()}
    if isinstance(v, list):
        return [plain(x) for x in v]
    if isinstance(v, set):
        return set(v)
    return v


def typed(v):
    if isinstance(v, dict):
        return ("dict", sorted(((type(k).__name__, repr(k)), typed(x)) for k, x in v.items()))
    if isinstance(v, list):
        return ("list", [typed(x) for x in v])
    if isinstance(v, set):
        return ("set", sorted((type(x).__name__, repr(x)) for x in v))
    return (type(v).__name__, repr(v))


# ------------------------------------------------------------------ strategies
def items_for(inner):
    """~70% valid, rest convertible/invalid."""
    good = {"int": [0, 1, 2, 3], "float": [0.5, 1.5, 2.0], "str": ["a", "b"]}
    if inner == "lint":
        g = st.lists(st.sampled_from([0, 1, 2]), max_size=3)
    elif inner == "lint2":
        g = st.lists(st.sampled_from([0, 1, 2]), max_size=2)
    elif inner == "union":
        g = st.sampled_from([0, 1, "a", "b"])
    else:
        g = st.sampled_from(good[inner])
    # (True / 1.0 / 2 ... are EQUAL to valid members but of another type: operations that only remove must not swap them in)
    other = st.sampled_from([True, 1, 1.5, "a", None, [1], [1, "x"], [1, 2, 3], {"t": [1]}, 2 ** 70, {"idx": 1}, [], "1", 2,
                             1.0, 2.0, 0.0, 3.0, True, 2, 0])
    return st.one_of(g, g, g, g, g, g, g, other, other, other)


IDX = st.integers(-5, 5)
SL = st.tuples(st.one_of(st.none(), IDX), st.one_of(st.none(), IDX), st.sampled_from([None, None, None, 1, 2, -1, -2, 3]))


def list_ops(inner):
    it = items_for(inner)
    its = st.lists(it, max_size=3)
    return st.one_of(
        st.tuples(st.just("append"), it), st.tuples(st.just("append"), it),
        st.tuples(st.just("extend"), its), st.tuples(st.just("insert"), IDX, it), st.tuples(st.just("insert"), IDX, it),
        st.tuples(st.just("iadd"), its), st.tuples(st.just("imul"), st.integers(-1, 3)),
        st.tuples(st.just("imul_idx"), st.integers(-1, 3)),          # the multiplier is an integer-like object (only __index__)
        st.tuples(st.just("pop"), IDX), st.tuples(st.just("pop"), IDX), st.tuples(st.just("remove"), it),
        st.tuples(st.just("sort")), st.tuples(st.just("reverse")), st.tuples(st.just("clear")),
        st.tuples(st.just("setitem"), IDX, it), st.tuples(st.just("delitem"), IDX), st.tuples(st.just("delitem"), IDX),
        st.tuples(st.just("setitem_idx"), IDX, it),          # the key is an integer-like object (only __index__)
        st.tuples(st.just("setslice"), SL, its), st.tuples(st.just("setslice"), SL, its),
        st.tuples(st.just("delslice"), SL), st.tuples(st.just("assign"), st.lists(it, max_size=5)),
        st.tuples(st.just("assign_copy"), st.lists(it, max_size=2)), st.tuples(st.just("assign_twin"), st.lists(it, max_size=4)),
        st.tuples(st.just("assign_other"), st.sampled_from([None, 5, {"t": [1, 2]}, "ab"])),
    ).map(list)


def dict_ops(k, v):
    K, V = items_for(k), items_for(v)
    pairs = st.lists(st.tuples(K, V).map(list), max_size=3)
    return st.one_of(
        st.tuples(st.just("set"), K, V), st.tuples(st.just("set"), K, V), st.tuples(st.just("del"), K),
        # update(name=value): either not supported at all (TypeError, nothing changes) or validated like any other update
        st.tuples(st.just("update_kw"), st.sampled_from(["a", "b", "1", "two"]), V),
        st.tuples(st.just("update"), pairs), st.tuples(st.just("ior"), pairs), st.tuples(st.just("setdefault"), K, V),
        st.tuples(st.just("pop"), K), st.tuples(st.just("popitem")), st.tuples(st.just("clear")),
        st.tuples(st.just("assign"), pairs), st.tuples(st.just("assign_other"), st.sampled_from([None, 5, [1]])),
        st.tuples(st.just("assign_copy"), pairs), st.tuples(st.just("assign_twin"), pairs),
    ).map(list)


class _Idx:
    """An integer-like object: it has __index__ and nothing else numeric."""

    def __init__(self, n):
        self.n = n

    def __index__(self):
        return self.n


def set_ops(inner):
    it = items_for(inner)
    its = st.lists(it, max_size=3)
    return st.one_of(
        st.tuples(st.just("add"), it), st.tuples(st.just("add"), it), st.tuples(st.just("update"), its),
        st.tuples(st.just("ior"), its), st.tuples(st.just("ixor"), its), st.tuples(st.just("sdu"), its),
        st.tuples(st.just("discard"), it), st.tuples(st.just("remove"), it), st.tuples(st.just("iand"), its),
        st.tuples(st.just("isub"), its), st.tuples(st.just("difference_update"), its), st.tuples(st.just("pop")),
        st.tuples(st.just("intersection_update"), its), st.tuples(st.just("iand"), its),
        st.tuples(st.just("ior_fs"), its), st.tuples(st.just("ixor_fs"), its),          # frozenset operands
        # update() with several iterables is ONE operation: an invalid item in a later iterable refuses all of it
        st.tuples(st.just("update2"), its, its), st.tuples(st.just("update2"), its, its), st.tuples(st.just("update3"), its, its, its),
        st.tuples(st.just("clear")), st.tuples(st.just("assign"), its),
        st.tuples(st.just("assign_other"), st.sampled_from([None, 5, [1]])),
        st.tuples(st.just("assign_copy"), its), st.tuples(st.just("assign_twin"), its),
    ).map(list)


def op_strategy():
    alts = []
    for name, inner in (("li", "int"), ("lb", "int"), ("lb", "int"), ("lf", "float"), ("ll", "lint"), ("lbb", "lint2"),
                        ("lu", "union")):
        alts.append(st.tuples(st.just([name]), list_ops(inner)).map(list))
    alts.append(st.tuples(st.tuples(st.just("ll"), IDX).map(list), list_ops("int")).map(list))
    alts.append(st.tuples(st.tuples(st.just("lbb"), IDX).map(list), list_ops("int")).map(list))
    alts.append(st.tuples(st.tuples(st.just("lbb"), IDX).map(list), list_ops("int")).map(list))
    alts.append(st.tuples(st.tuples(st.just("dl"), IDX).map(list), list_ops("int")).map(list))
    alts.append(st.tuples(st.just(["di"]), dict_ops("str", "int")).map(list))
    alts.append(st.tuples(st.just(["dl"]), dict_ops("int", "lint")).map(list))
    alts.append(st.tuples(st.just(["df"]), dict_ops("float", "float")).map(list))
    alts.append(st.tuples(st.just(["dni"]), dict_ops("str", "int")).map(list))
    alts.append(st.tuples(st.just(["dnl"]), dict_ops("int", "lint")).map(list))
    alts.append(st.tuples(st.tuples(st.just("dnl"), IDX).map(list), list_ops("int")).map(list))
    alts.append(st.tuples(st.just(["lni"]), list_ops("int")).map(list))
    alts.append(st.tuples(st.just(["l0"]), list_ops("int")).map(list))
    alts.append(st.tuples(st.just(["ll0"]), list_ops("lint")).map(list))
    alts.append(st.tuples(st.tuples(st.just("ll0"), IDX).map(list), list_ops("int")).map(list))
    alts.append(st.tuples(st.just(["si"]), set_ops("int")).map(list))
    alts.append(st.tuples(st.just(["sf"]), set_ops("float")).map(list))
    return st.one_of(alts)


def strategy(tier):
    return st.fixed_dictionaries({
        "lb": st.sampled_from([[0], [0, 1, 2], [0, 1, 2, 3]]),
        "lbb": st.sampled_from([[], [[0], [1, 2]], [[0, 1], [], [2]]]),
        "ll": st.sampled_from([[], [[1], [2, 3]]]),
        "dl": st.sampled_from([[], [[1, [1]], [2, []]]]),
        "falsy_owner": st.sampled_from([False, False, True]),
        "ops": st.lists(op_strategy(), min_size=1, max_size=20),
    })


# ------------------------------------------------------------------ model ops
def m_list(m, op, c):
    """Apply list op to plain list m with item conversion c; returns new list. Raises builtin errors / Reject."""
    k = op[0]
    if k == "append":
        m.append(c(op[1]))
    elif k == "extend":
        m.extend([c(x) for x in op[1]])
    elif k == "insert":
        v = c(op[2]); m.insert(op[1], v)
    elif k == "iadd":
        m += [c(x) for x in op[1]]
    elif k in ("imul", "imul_idx"):
        m *= op[1]
    elif k == "pop":
        m.pop(op[1])
    elif k == "remove":
        m.remove(op[1])
    elif k == "sort":
        m.sort()
    elif k == "reverse":
        m.reverse()
    elif k == "clear":
        m.clear()
    elif k in ("setitem", "setitem_idx"):
        v = c(op[2]); m[op[1]] = v
    elif k == "delitem":
        del m[op[1]]
    elif k == "setslice":
        v = [c(x) for x in op[2]]; m[slice(*op[1])] = v
    elif k == "delslice":
        del m[slice(*op[1])]
    else:
        raise AssertionError(k)
    return m


def r_list(l, op):
    k = op[0]
    if k == "append":
        l.append(op[1])
    elif k == "extend":
        l.extend(op[1])
    elif k == "insert":
        l.insert(op[1], op[2])
    elif k == "iadd":
        l += op[1]
    elif k == "imul":
        l *= op[1]
    elif k == "imul_idx":
        l *= _Idx(op[1])
    elif k == "pop":
        l.pop(op[1])
    elif k == "remove":
        l.remove(op[1])
    elif k == "sort":
        l.sort()
    elif k == "reverse":
        l.reverse()
    elif k == "clear":
        l.clear()
    elif k == "setitem":
        l[op[1]] = op[2]
    elif k == "setitem_idx":
        l[_Idx(op[1])] = op[2]
    elif k == "delitem":
        del l[op[1]]
    elif k == "setslice":
        l[slice(*op[1])] = op[2]
    elif k == "delslice":
        del l[slice(*op[1])]
    else:
        raise AssertionError(k)


def m_dict(m, op, ck, cv):
    k = op[0]

    def pairs(ps):
        out = []
        for a, b in ps:
            ka, vb = ck(a), cv(b)
            hash(ka)
            out.append((ka, vb))
        return out
    if k == "set":
        kk, vv = ck(op[1]), cv(op[2]); m[kk] = vv
    elif k == "del":
        del m[op[1]]
    elif k in ("update", "ior"):
        m.update(pairs(op[1]))
    elif k == "update_kw":
        m.update(pairs([[op[1], op[2]]]))
    elif k == "setdefault":
        if op[1] in m:
            return m
        kk, vv = ck(op[1]), cv(op[2]); m.setdefault(kk, vv)
    elif k == "pop":
        m.pop(op[1])
    elif k == "popitem":
        m.popitem()
    elif k == "clear":
        m.clear()
    else:
        raise AssertionError(k)
    return m


def r_dict(d, op):
    k = op[0]
    if k == "set":
        d[op[1]] = op[2]
    elif k == "del":
        del d[op[1]]
    elif k == "update":
        d.update([tuple(p) for p in op[1]])
    elif k == "update_kw":
        d.update(**{op[1]: op[2]})
    elif k == "ior":
        d |= dict([tuple(p) for p in op[1]])
    elif k == "setdefault":
        d.setdefault(op[1], op[2])
    elif k == "pop":
        d.pop(op[1])
    elif k == "popitem":
        d.popitem()
    elif k == "clear":
        d.clear()
    else:
        raise AssertionError(k)


def m_set(m, op, c):
    k = op[0]

    def cs(items):
        out = []
        for x in items:
            y = c(x); hash(y); out.append(y)
        return out
    if k == "add":
        y = c(op[1]); hash(y); m.add(y)
    elif k in ("ior", "ior_fs"):
        m.update(cs(set(op[1])))          # (the operand really is set(items): equal items have collapsed already)
    elif k == "update":
        m.update(cs(op[1]))
    elif k in ("update2", "update3"):
        m.update(cs([x for part in op[1:] for x in part]))
    elif k in ("ixor", "sdu", "ixor_fs"):
        values = set(op[1])
        removed = m & values
        added = {c(x) for x in values - removed} - m
        m -= removed
        m |= added
    elif k == "discard":
        m.discard(op[1])
    elif k == "remove":
        m.remove(op[1])
    elif k in ("iand", "intersection_update"):
        # (the builtin decides what is an error: it does not hash every item of a list argument)
        other = set(op[1]) if k == "iand" else set(m).intersection(op[1])
        for x in [x for x in m if x not in other]:      # the members that stay are the set's OWN (validated) objects
            m.discard(x)
    elif k == "isub":
        m -= set(op[1])
    elif k == "difference_update":
        set(op[1]); m.difference_update(op[1])
    elif k == "pop":
        raise AssertionError("pop handled by caller")
    elif k == "clear":
        m.clear()
    else:
        raise AssertionError(k)
    return m


def r_set(s, op):
    k = op[0]
    if k == "add":
        s.add(op[1])
    elif k == "update":
        s.update(op[1])
    elif k in ("update2", "update3"):
        s.update(*op[1:])
    elif k == "ior":
        s |= set(op[1])
    elif k == "ixor":
        s ^= set(op[1])
    elif k == "ior_fs":
        s |= frozenset(op[1])
    elif k == "ixor_fs":
        s ^= frozenset(op[1])
    elif k == "sdu":
        s.symmetric_difference_update(op[1])
    elif k == "discard":
        s.discard(op[1])
    elif k == "remove":
        s.remove(op[1])
    elif k == "iand":
        s &= set(op[1])
    elif k == "intersection_update":
        s.intersection_update(op[1])
    elif k == "isub":
        s -= set(op[1])
    elif k == "difference_update":
        s.difference_update(op[1])
    elif k == "pop":
        return s.pop()
    elif k == "clear":
        s.clear()
    else:
        raise AssertionError(k)


class Skip(Exception):
    pass


def unhashable(x):
    try:
        hash(x)
    except TypeError:
        return True
    return False


def run(case, ctx):
    o = FalsyHolder() if case.get("falsy_owner") else Holder()
    if case.get("falsy_owner"):
        ctx.label("owner-object-is-falsy")
    o.lb = list(case["lb"])
    o.lbb = copy.deepcopy(case["lbb"])
    o.ll = copy.deepcopy(case["ll"])
    o.dl = {k: list(v) for k, v in case["dl"]}
    ev = []
    for n in SPECS:
        o.on_trait_change(lambda obj, nm, old, new: ev.append(nm), n + "_items")
        o.on_trait_change(lambda obj, nm, old, new: ev.append(nm), n)
        o.observe(lambda e: ev.append("observe"), n + ".items")
    for n in ("ll", "lbb", "dl", "dnl", "ll0"):
        o.observe(lambda e: ev.append("observe-inner"), n + ".items.items")
    interesting = False
    for dn, lo in (("lnd", 2), ("lnd1", 1)):
        try:
            dv = getattr(o, dn)
        except TraitError:
            ctx.label("default-below-minlen-refused")
        else:
            if len(dv) < lo:
                ctx.fail("invariant/default-below-minlen", "%s = List(Int, minlen=%d) without a default reads %r" % (dn, lo, list(dv)))

    for path, rawop in case["ops"]:
        name = path[0]
        spec = SPECS[name]
        op = [rawop[0]] + [dec(a) for a in rawop[1:]]
        k = op[0]
        # ---- resolve the target container
        top = getattr(o, name)
        if len(path) == 2:
            if k in ("assign", "assign_other", "assign_copy", "assign_twin"):
                continue
            if spec[0] == "list":
                if not len(top):
                    continue
                tgt = top[path[1] % len(top)]
                tspec = spec[1]
            else:
                vals = list(top.values())
                if not vals:
                    continue
                tgt = vals[path[1] % len(vals)]
                tspec = spec[2]
            ctx.label("nested-target")
        else:
            tgt, tspec = top, spec
        before_all = {n: typed(plain(getattr(o, n))) for n in SPECS}
        model = plain(tgt)
        del ev[:]
        what = lambda: "target=%r spec=%r op=%r before=%r" % (path, tspec, op, model)
        kind = tspec[0]

        # ---- model
        expected = None      # plain value of the target after the op (None when illegal)
        m_reject = False     # element / length constraint would be violated
        m_exc = None         # builtin exception class of the underlying op
        try:
            if k in ("assign", "assign_copy", "assign_twin"):
                raw = op[1]
                if k == "assign_copy":
                    # the value assigned is a detached deep copy of the current container (it keeps its trait) into which
                    # the items were put WITHOUT validation (base-class methods): whole-value assignment must validate it
                    if kind == "list":
                        raw = list(model) + list(raw)
                    elif kind == "dict":
                        try:
                            raw = list(model.items()) + [tuple(p) for p in raw]
                            dict(raw)
                        except TypeError:
                            raise Skip()
                    else:
                        try:
                            raw = list(model) + list(raw)
                            set(raw)
                        except TypeError:
                            raise Skip()
                if kind == "dict":
                    try:
                        raw = dict([tuple(p) for p in raw])
                    except TypeError:
                        raise Skip()
                elif kind == "set":
                    try:
                        raw = set(raw)
                    except TypeError:
                        raise Skip()
                op[1] = raw
                if k == "assign_twin":
                    # the value is the container OBJECT of another instance of the class (same trait), which is then dropped
                    try:
                        conv(tspec, raw)
                    except Reject:
                        raise Skip()
                expected = conv(tspec, raw)
            elif k == "assign_other":
                raise Reject()
            elif kind == "list":
                expected = m_list(copy.deepcopy(model), op, lambda x: conv(tspec[1], x))
                if not tspec[2] <= len(expected) <= tspec[3]:
                    raise Reject()
            elif kind == "dict":
                if k == "ior":
                    try:
                        op[1] = [list(p) for p in dict([tuple(p) for p in op[1]]).items()]
                    except TypeError:
                        raise Skip()
                expected = m_dict(copy.deepcopy(model), op, lambda x: conv(tspec[1], x), lambda x: conv(tspec[2], x))
            elif kind == "set":
                if k in ("ior", "ixor", "iand", "isub", "ior_fs", "ixor_fs"):
                    try:
                        set(op[1])
                    except TypeError:
                        raise Skip()
                if k == "pop":
                    expected = "pop"
                    if not model:
                        raise KeyError()
                else:
                    expected = m_set(set(model), op, lambda x: conv(tspec[1], x))
        except Skip:
            continue
        except Reject:
            m_reject, expected = True, None
        except OverflowError:
            continue          # conversion overflow passes through (C01); not this property's subject
        except Exception as e:
            m_exc, expected = type(e), None
        allowed = set()
        if m_reject:
            allowed.add(TraitError)
            # is the underlying builtin op illegal as well (bad index, wrong slice size, missing key)?
            # then its exception class is acceptable too: fault order is not part of the property
            if k not in ("assign", "assign_other"):
                try:
                    if kind == "list":
                        m_list(copy.deepcopy(model), op, lambda x: 0)
                    elif kind == "dict":
                        m_dict(copy.deepcopy(model), op, lambda x: x if not unhashable(x) else 0, lambda x: 0)
                    elif k != "pop":
                        m_set(set(model), op, lambda x: x if not unhashable(x) else 0)
                except Exception as e:
                    allowed.add(type(e))
        elif m_exc is not None:
            allowed.add(m_exc)
            # the length check may legitimately come first: pop/remove/delitem that would leave the list too short
            if kind == "list" and k in ("pop", "remove", "delitem") and len(model) - 1 < tspec[2]:
                allowed.add(TraitError)

        # ---- classification
        if m_reject:
            interesting = True
            ctx.label("illegal-by-model")
        if kind == "list" and tspec[3] < BIG and k in ("append", "extend", "insert", "iadd", "imul", "imul_idx", "pop", "remove",
                                                         "clear", "delitem", "setslice", "delslice"):
            if len(model) in (tspec[2], tspec[3], tspec[3] - 1):
                interesting = True
                ctx.label("length-op-at-bound")

        # ---- implementation
        try:
            if k in ("assign", "assign_other"):
                setattr(o, name, op[1])
                r = None
            elif k == "assign_copy":
                d = copy.deepcopy(tgt)
                {"list": list, "dict": dict, "set": set}[kind].clear(d)
                if kind == "list":
                    list.extend(d, op[1])
                elif kind == "dict":
                    dict.update(d, op[1])
                else:
                    set.update(d, op[1])
                ctx.label("assign-detached-copy")
                setattr(o, name, d)
                del d
                r = None
            elif k == "assign_twin":
                twin = type(o)()
                setattr(twin, name, op[1])
                setattr(o, name, getattr(twin, name))
                del twin                      # (a plain instance without handlers: freed by reference counting)
                ctx.label("assign-from-twin")
                interesting = True
                r = None
            elif kind == "list":
                r = r_list(tgt, op)
            elif kind == "dict":
                r = r_dict(tgt, op)
            else:
                r = r_set(tgt, op)
            exc = None
        except Exception as e:
            exc = e
        after_all = {n: typed(plain(getattr(o, n))) for n in SPECS}

        # ---- invariant (independent of the model)
        for n, sp in SPECS.items():
            v = plain(getattr(o, n))
            if not valid(sp, v):
                ctx.fail("invariant/" + sp[0], "%s holds %r which violates %r after %s (raised %r)"
                         % (n, v, sp, what(), exc))

        if exc is not None:
            ctx.label("raised")
            if after_all != before_all:
                ctx.fail("failure/changed", "op raised %r but contents changed: %s -> %r" % (exc, what(), plain(getattr(o, name))))
            if ev:
                ctx.fail("failure/notified", "op raised %r but notified %r: %s" % (exc, ev, what()))
            if k == "update_kw" and isinstance(exc, TypeError):
                continue          # (the keyword form is simply not offered: refused before anything happened)
            if not allowed:
                ctx.fail("model/legal-op-rejected", "legal op raised %r: %s expected=%r" % (exc, what(), expected))
            if type(exc) not in allowed:
                ctx.fail("model/exception-class", "raised %r, expected one of %s: %s"
                         % (exc, sorted(c.__name__ for c in allowed), what()))
            continue
        if m_reject:
            ctx.fail("model/illegal-op-accepted", "op violating the element/length constraint succeeded: %s now=%r"
                     % (what(), plain(getattr(o, name))))
        if m_exc is not None:
            ctx.fail("model/exception-class", "builtin raises %s, container succeeded: %s" % (m_exc.__name__, what()))
        got = plain(getattr(o, name)) if k in ("assign", "assign_copy", "assign_twin") else plain(tgt)
        if expected == "pop":
            if r not in model or got != model - {r}:
                ctx.fail("model/contents", "set.pop returned %r leaving %r: %s" % (r, got, what()))
        elif typed(got) != typed(expected):
            sig = ""
            if kind == "dict" and k == "setdefault":
                # F6 (recorded for C06): setdefault(raw_key) with raw_key absent but its validated form present
                try:
                    if op[1] not in model and conv(tspec[1], op[1]) in model:
                        sig = "/setdefault-coerced-existing-key"
                except Exception:
                    pass
            ctx.fail("model/contents" + sig, "contents %r, model %r: %s" % (got, expected, what()))
        if after_all != before_all and not ev:
            ctx.fail("success/silent", "contents changed but nobody was notified: %s" % what())
    if interesting:
        ctx.nontrivial()


def stages(tier):
    return [{"name": "hist", "kind": "hyp", "strategy": strategy, "run": run,
             "examples": {"quick": 24000, "thorough": 300000}, "shards": 16}]
