"""C18 — the compiled core is memory-safe and reference-neutral under any API use.

stages run against an ASan+UBSan build of ctraits.c (flavour 'asan', PYTHONMALLOC=malloc):
  reuse-*   : the case streams of the other properties re-executed (functional verdicts ignored here:
              the oracle is 'no sanitizer report, no crash, no SystemError, no stale error indicator');
              odd shards run with gc.set_threshold(1, 1, 1)
  reentrant : generated programs whose callbacks (static/dynamic/observe handlers, property getters,
              default methods, custom validate/post_setattr) perform further API calls, including
              surgery on the very trait being operated on (remove_trait/add_trait/handler removal),
              delegate re-binding during a delegated read/write, gc.collect() anywhere
  protocol  : values, enumeration members, mapping keys, classes and attribute-NAME objects whose
              __hash__/__eq__/__bool__/__index__/__float__/__instancecheck__ raise at the k-th call
stage on the plain build:
  refcount  : reference neutrality - sys.getrefcount of fresh values/objects/handlers sampled after a
              warm-up call and after 10 and 30 further repetitions of operations that succeed and
              operations that raise; any non-zero delta is a leak or an over-release
"""
import ctypes
import gc
import os
import pickle
import sys
import warnings

from hypothesis import strategies as st

from traits import api as T
from traits.api import (HasTraits, TraitType, TraitError, Any, Int, Float, Str, List, Tuple, Either, Event, Instance,
                        DelegatesTo, PrototypedFrom, Property, ReadOnly, Range, Trait, Enum, Map, DelegationError,
                        push_exception_handler, pop_exception_handler)
from vf.core import Violation

ID = "C18"
LEVEL = "exploration"
RULE = ("reuse-*: the generated cases of C01-C14, C16, C17, C19, C20 (24 stages) re-run on the sanitised build; reentrant: Hypothesis "
        "programs (<=15 ops, scripts of <=3 actions for up to 5 callback sites); protocol: every (configuration, hostile value, "
        "k-th call) triple of the stated grid (exhaustive); refcount: every operation of a 34-entry table (exhaustive); refgrid: "
        "every lattice configuration x (lattice values + 28 containers with mortal convertible items), reference counts of the "
        "value and of everything nested in it after 1/11/41 assignments to fresh objects; deffault(-asan): default callback "
        "kind x exception class x warnings filter x access route (exhaustive); "
        "non-trivial = the program takes an error path or re-enters during a callback; distinct by digest")
ASSUMPTIONS = ["ordinary attribute names are immortal interned strings on 3.12: their counts carry no information",
               "hostile direct calls to CTrait.__setstate__ with hand-made tuples are not documented API and are not generated",
               "MSan (uninitialised reads) is not available for CPython in this sandbox"]


def stale_error():
    """A C function that 'succeeded' while leaving the error indicator set: ctypes re-raises it here."""
    try:
        ctypes.pythonapi.PyErr_Occurred()
    except BaseException as e:      # noqa: B902
        return e
    return None


# ----------------------------------------------------------------------------- reuse stages
REUSE = [("c01", "random", 12), ("c03", "compounds", 12), ("c04", "hist", 10), ("c02", "hist", 12), ("c08", "hist", 12),
         ("c09", "hist", 12), ("c09", "fail", 12), ("c10", "hist", 10), ("c11", "hist", 10), ("c12", "hist", 12),
         ("c13", "hist", 12), ("c14", "objects", 10), ("c14", "defs", 1), ("c19", "inject", 20), ("c20", "hist", 10),
         ("c06", "hist", 20), ("c07", "hist", 20), ("c16", "hist", 20), ("c17", "cases", 30),
         ("c14", "defgrid", 1), ("c09", "optional", 12), ("c09", "failrem", 12), ("c01", "xrandom", 12), ("c05", "hist", 30)]


def reuse_stage(modname, stagename, divisor, tier):
    import importlib
    mod = importlib.import_module("vf.props." + modname)
    src = next(s for s in mod.stages(tier) if s["name"] == stagename)
    inner = src["run"]

    def run(case, ctx):
        if int(os.environ.get("VERIF_SHARD", "0")) % 2:
            gc.set_threshold(1, 1, 1)
        try:
            inner(case, ctx)
        except Violation:
            ctx.label("functional-verdict-ignored-here")
        except SystemError as e:
            ctx.fail("systemerror/" + modname, "SystemError from the compiled core: %r" % (e,))
        e = stale_error()
        if e is not None:
            ctx.fail("stale-error/" + modname, "operation left the error indicator set: %r" % (e,))
        ctx.nontrivial()
    st_ = dict(src)
    st_["name"] = "reuse-%s-%s" % (modname, stagename)
    st_["run"] = run
    st_["flavour"] = "asan"
    st_["shards"] = 4
    if "examples" in st_:
        st_["examples"] = {t: max(8, n // divisor) for t, n in src["examples"].items()}
    return st_


# ----------------------------------------------------------------------------- reentrant programs
class Boom(Exception):
    pass


class Peer(HasTraits):
    a = Any
    v = Int
    dd = Any

    def _dd_default(self):
        ACT("peer_default", CUR[0])
        return 7

    def _a_changed(self):
        ACT("peer_changed", CUR[0])


SCRIPT = {}
DEPTH = [0]
CUR = [None]
HANDLERS = []
class Finalizer:
    """A value whose finalizer allocates and collects: garbage collection in the middle of an object's teardown."""

    def __del__(self):
        junk = [[i] for i in range(20)]
        junk.append(junk)
        del junk
        gc.collect()


class _FreshFinalizer:
    pass


VALUES = [0, 1, "s", None, [1], (1, 2), (1, "a"), 2 ** 70, 1.5, object(), 3, (2, None), _FreshFinalizer]


class Surgeon(TraitType):
    """A custom trait whose validate / post_setattr run scripted actions (on an attribute that may be an instance trait)."""
    default_value = 0

    def validate(self, obj, name, value):
        ACT("validate", obj)
        return value

    def post_setattr(self, obj, name, value):
        ACT("post_setattr", obj)


def mkclass(bare=False):
    """bare: no static change handlers at all, so that class traits have NO trait-level notifiers (the static
    `_anytrait_changed` is attached to every class trait) and only object-level ones are dispatched."""
    class O(HasTraits):
        a = Any
        i = Int
        l = List(Int)
        t = Tuple(Int, Any)
        e = Either(Int, Str, None)
        ev = Event
        inst = Instance(HasTraits)
        peer = Instance(HasTraits)
        d = DelegatesTo("peer", "a")
        dd = DelegatesTo("peer")
        pv = PrototypedFrom("peer", "v")
        pp = Property            # a delegate that is a temporary object
        pd = DelegatesTo("pp", "a")
        p = Property(observe="i")
        ro = ReadOnly
        s = Surgeon()
        x_ = Int

        def _get_p(self):
            ACT("getter", self)
            return self.i

        def _get_pp(self):
            return Peer()

        if not bare:
            def _i_changed(self, old, new):
                ACT("static_i", self)

            def _a_changed(self, old, new):
                ACT("static_a", self)

            def _s_changed(self, old, new):
                ACT("static_s", self)

            def _anytrait_changed(self, name, old, new):
                ACT("any", self)

        def _l_default(self):
            ACT("l_default", self)
            return [1]
    return O


def ACT(site, obj):
    acts = SCRIPT.get(site)
    if not acts or DEPTH[0] > 2 or obj is None:
        return
    DEPTH[0] += 1
    try:
        for a in acts:
            do(a, obj, inner=True)
    finally:
        DEPTH[0] -= 1


BENIGN = (TraitError, AttributeError, KeyError, ValueError, TypeError, DelegationError, pickle.PicklingError, RecursionError,
          IndexError)


def do(a, o, inner=False):
    k = a[0]
    if k in ("otc_add", "any_add", "obs_add") and len(HANDLERS) >= 48:
        return          # (a handler that registers handlers grows the population geometrically: that is the program's
                        #  own run-away, not the library's)
    try:
        if k == "set":
            v = VALUES[a[2] % len(VALUES)]
            setattr(o, a[1], Finalizer() if v is _FreshFinalizer else v)
        elif k == "get":
            getattr(o, a[1])
        elif k == "del":
            delattr(o, a[1])
        elif k == "otc_add":
            h = (lambda: ACT("dyn", o))
            HANDLERS.append(h)
            o.on_trait_change(h, a[1])
        elif k == "otc_rem":
            if HANDLERS:
                o.on_trait_change(HANDLERS[a[2] % len(HANDLERS)], a[1], remove=True)
        elif k == "any_add":
            h = (lambda: ACT("dyn", o))
            HANDLERS.append(h)
            o.on_trait_change(h)                      # object-level handler (no name)
        elif k == "any_rem":
            if HANDLERS:
                o.on_trait_change(HANDLERS[a[1] % len(HANDLERS)], remove=True)
        elif k == "drop":
            # build an object holding values with finalizers and drop it (teardown with GC activity)
            t = o.__class__()
            t.a = Finalizer()
            t.inst = Peer(a=Finalizer())
            t.l = [1, 2]
            del t
        elif k == "obs_add":
            h = (lambda e: ACT("dyn", o))
            HANDLERS.append(h)
            o.observe(h, a[1])
        elif k == "obs_rem":
            if HANDLERS:
                o.observe(HANDLERS[a[2] % len(HANDLERS)], a[1], remove=True)
        elif k == "add_trait":
            o.add_trait(a[1], [Int, Str, Any, List(Int), Event, ReadOnly, Surgeon()][a[2] % 7])
        elif k == "remove_trait":
            o.remove_trait(a[1])
        elif k == "gc":
            gc.collect()
        elif k == "raise":
            raise Boom()
        elif k == "clear_dict":
            o.__dict__.pop(a[1], None)
        elif k == "new_dict":
            o.__dict__ = dict(o.__dict__)
        elif k == "lmut":
            o.l.append(1)
            o.l.pop()
        elif k == "pickle":
            pickle.loads(pickle.dumps(o.trait(a[1])))
        elif k == "clone":
            o.clone_traits()
        elif k == "peer_none":
            o.peer = None
        elif k == "peer_new":
            o.peer = Peer()
        elif k == "peer_self":
            o.peer = o
        elif k == "trait_set":
            o.trait_set(i=1, a=2)
        elif k == "reset":
            o.reset_traits()
        elif k == "validate":
            o.trait(a[1]).validate(o, a[1], VALUES[a[2] % len(VALUES)])
        elif k == "copyable":
            o.copy_traits(o.__class__())
        elif k == "itrait":
            o._instance_traits()
            o.trait(a[1], True, True) if False else o._trait(a[1], 2)
    except Boom:
        if inner:
            raise
    except BENIGN:
        pass
    except SystemError:
        raise
    except Exception as e:
        if type(e).__name__ in ("NotifierNotFound", "TraitNotificationError"):
            return
        raise


NAMES = ["a", "i", "l", "t", "e", "ev", "inst", "peer", "d", "dd", "pv", "pd", "ro", "s", "x_1", "x_2", "zz", "trait_added"]
SITES = ["static_i", "static_a", "static_s", "any", "dyn", "getter", "l_default", "validate", "post_setattr", "peer_default",
         "peer_changed"]


def act_strategy():
    N = st.sampled_from(NAMES)
    return st.one_of(
        st.tuples(st.just("set"), N, st.integers(0, 20)), st.tuples(st.just("set"), N, st.integers(0, 20)),
        st.tuples(st.just("get"), st.sampled_from(NAMES + ["p"])), st.tuples(st.just("del"), N),
        st.tuples(st.sampled_from(["otc_add", "otc_rem", "obs_add", "obs_rem"]), st.sampled_from(["a", "i", "l", "ev", "l_items", "s"]),
                  st.integers(0, 5)),
        st.tuples(st.just("add_trait"), st.sampled_from(["zz", "a", "i", "l", "q", "s"]), st.integers(0, 6)),
        st.tuples(st.just("remove_trait"), st.sampled_from(["zz", "a", "i", "l", "q", "s"])),
        st.tuples(st.just("remove_trait"), st.sampled_from(["zz", "a", "i", "l", "q", "s"])),
        st.tuples(st.just("gc")), st.tuples(st.just("raise")), st.tuples(st.just("clear_dict"), N), st.tuples(st.just("new_dict")),
        st.tuples(st.just("lmut")), st.tuples(st.just("pickle"), st.sampled_from(["a", "i", "l", "t", "e", "ev", "inst", "p", "d", "s"])),
        st.tuples(st.just("clone")), st.tuples(st.just("peer_none")), st.tuples(st.just("peer_new")), st.tuples(st.just("peer_new")),
        st.tuples(st.just("peer_self")),
        st.tuples(st.just("trait_set")), st.tuples(st.just("reset")),
        st.tuples(st.just("validate"), st.sampled_from(["a", "i", "l", "t", "e", "inst", "s"]), st.integers(0, 20)),
        st.tuples(st.just("copyable")), st.tuples(st.just("itrait"), st.sampled_from(["a", "i", "s", "l"])),
        st.tuples(st.just("any_add")), st.tuples(st.just("any_add")), st.tuples(st.just("any_rem"), st.integers(0, 5)),
        st.tuples(st.just("any_rem"), st.integers(0, 5)), st.tuples(st.just("drop")),
    ).map(list)


def reentrant_strategy(tier):
    act = act_strategy()
    # focused family: delegation through `peer` while callbacks of the DELEGATE (its default method, its change handler)
    # rebind or drop the delegate - random programs reach this far too rarely
    rebind = st.sampled_from([["peer_new"], ["peer_none"], ["gc"], ["peer_self"], ["new_dict"], ["clear_dict", "peer"]])
    dact = st.one_of(st.sampled_from([["get", "dd"], ["get", "dd"], ["set", "dd", 1], ["set", "dd", 2], ["get", "d"], ["set", "d", 4],
                                      ["set", "pd", 3], ["get", "pv"], ["set", "pv", 3], ["del", "pv"], ["peer_new"], ["gc"],
                                      ["otc_add", "a", 0], ["get", "p"]]), act)
    focused = st.fixed_dictionaries({
        "script": st.fixed_dictionaries({"peer_default": st.lists(rebind, min_size=1, max_size=2),
                                         "peer_changed": st.lists(rebind, min_size=0, max_size=2),
                                         "static_a": st.lists(rebind, min_size=0, max_size=1),
                                         "getter": st.lists(rebind, min_size=0, max_size=1)}),
        "instance_traits": st.lists(st.sampled_from(["s", "a", "i", "l"]), max_size=1),
        "prog": st.lists(dact, min_size=1, max_size=10),
        "reraise": st.booleans(),
        "gc_stress": st.booleans(),
    })
    # focused family 2: several object-level handlers, one of which removes/adds handlers while a trait WITHOUT
    # trait-level notifiers is being notified
    surgery = st.sampled_from([["any_rem", 0], ["any_rem", 1], ["any_rem", 2], ["any_add"], ["otc_rem", "i", 0], ["gc"], ["raise"]])
    hprog = st.sampled_from([["any_add"], ["any_add"], ["set", "e", 1], ["set", "e", 2], ["set", "t", 5], ["set", "x_1", 1], ["set", "x_2", 2],
                             ["set", "inst", 3], ["set", "ev", 1], ["any_rem", 0], ["gc"], ["set", "a", 9]])
    focused2 = st.fixed_dictionaries({
        "script": st.fixed_dictionaries({"dyn": st.lists(surgery, min_size=1, max_size=3)}),
        "instance_traits": st.just([]),
        "prog": st.lists(hprog, min_size=3, max_size=12).map(lambda l: [["any_add"], ["any_add"], ["any_add"]] + l),
        "reraise": st.booleans(),
        "gc_stress": st.booleans(),
        "bare": st.sampled_from([True, True, False]),
    })
    general = st.fixed_dictionaries({
        "script": st.dictionaries(st.sampled_from(SITES), st.lists(act, min_size=1, max_size=3), max_size=5),
        "instance_traits": st.lists(st.sampled_from(["s", "a", "i", "l"]), max_size=2),
        "prog": st.lists(act, min_size=1, max_size=15),
        "reraise": st.booleans(),
        "gc_stress": st.booleans(),
        "bare": st.sampled_from([False, False, False, True]),
    })
    return st.one_of(general, general, focused, focused2)


def reentrant_strategy_small(tier):
    """The same program language with small size bounds: the byte stream libFuzzer mutates must stay within
    Hypothesis' buffer limit for (almost) every input, otherwise the input is discarded before it runs."""
    act = act_strategy()
    rebind = st.sampled_from([["peer_new"], ["peer_none"], ["gc"], ["peer_self"], ["new_dict"], ["remove_trait", "s"],
                              ["remove_trait", "a"], ["add_trait", "s", 6], ["raise"]])
    # (a tuple mapped to a dict: fixed_dictionaries with >= 4 keys is never accepted by fuzz_one_input in Hypothesis 6.168)
    keys = ["script", "instance_traits", "prog", "reraise", "gc_stress"]
    return st.tuples(
        st.dictionaries(st.sampled_from(SITES), st.lists(st.one_of(rebind, act), min_size=1, max_size=2), max_size=2),
        st.lists(st.sampled_from(["s", "a", "i", "l"]), max_size=1),
        st.lists(act, min_size=1, max_size=6),
        st.booleans(),
        st.booleans(),
    ).map(lambda t: dict(zip(keys, t)))


def reentrant_run(case, ctx):
    SCRIPT.clear()
    SCRIPT.update(case["script"])
    del HANDLERS[:]
    DEPTH[0] = 0
    gc.set_threshold(1, 1, 1) if case["gc_stress"] else gc.set_threshold(700, 10, 10)
    O = mkclass(bool(case.get("bare")))
    if case.get("bare"):
        ctx.label("class-without-static-handlers")
    o = O()
    o.peer = Peer()
    CUR[0] = o
    for n in case["instance_traits"]:
        o._trait(n, 2)                     # force the per-instance clone of the trait
    push_exception_handler(handler=lambda *a: None, reraise_exceptions=case["reraise"], main=True)
    if case["script"]:
        ctx.nontrivial()
    try:
        with warnings.catch_warnings():
            warnings.simplefilter("ignore")
            for a in case["prog"]:
                try:
                    do(a, o)
                except Boom:
                    ctx.label("callback-raised")
                except SystemError as e:
                    ctx.fail("systemerror/reentrant", "SystemError from the compiled core during %r: %r" % (a, e))
                e = stale_error()
                if e is not None:
                    ctx.fail("stale-error/reentrant", "%r left the error indicator set: %r" % (a, e))
    finally:
        pop_exception_handler()
        CUR[0] = None
        gc.set_threshold(700, 10, 10)
    del o
    gc.collect()


# ----------------------------------------------------------------------------- protocol faults
ARM = {"n": 0, "at": None}


def bump(kind):
    ARM["n"] += 1
    if ARM["at"] is not None and ARM["n"] >= ARM["at"]:
        raise RuntimeError("hostile " + kind)


class Meta(type):
    def __instancecheck__(cls, inst):
        bump("instancecheck")
        return type.__instancecheck__(cls, inst)

    def __subclasscheck__(cls, sub):
        bump("subclasscheck")
        return type.__subclasscheck__(cls, sub)


class Weird(metaclass=Meta):
    pass


class BadEq:
    def __eq__(s, o):
        bump("eq")
        return s is o

    def __hash__(s):
        return 1


class BadHash:
    def __hash__(s):
        bump("hash")
        return 2

    def __eq__(s, o):
        return s is o


class BadBool:
    def __bool__(s):
        bump("bool")
        return True


class BadIdx:
    def __index__(s):
        bump("index")
        return 1


class BadFloat:
    def __float__(s):
        bump("float")
        return 0.5


class BadStr(str):
    def __hash__(self):
        bump("name-hash")
        return str.__hash__(self)

    def __eq__(self, o):
        return str.__eq__(self, o)


PCFG = {
    "Enum(BadEq)": lambda: Enum(1, BadEq(), 3), "Enum": lambda: Enum(1, 2, 3), "Map": lambda: Map({"a": 1, 2: 3}),
    "Instance(Weird)": lambda: Instance(Weird), "Either(Instance(Weird),Int)": lambda: Either(Instance(Weird), Int),
    "Either(Enum(BadEq),Str)": lambda: Either(Enum(BadEq(), 2), Str), "Tuple(Int,Int)": lambda: Tuple(Int, Int),
    "Either(Map,Int)": lambda: Either(Map({"a": 1}), Int), "Range": lambda: Range(0.0, 1.0),
    "Either(Range,Str)": lambda: Either(Range(0.0, 1.0), Str), "Int": lambda: Int(), "Float": lambda: Float(),
    "Either(Float,Str)": lambda: Either(Float, Str), "Either(Int,Str)": lambda: Either(Int, Str), "Callable": lambda: T.Callable(),
    "Type(Weird)": lambda: T.Type(Weird), "List(Enum)": lambda: List(Enum(1, BadEq())), "Supports(Weird)": lambda: T.Supports(Weird),
    "Either(Supports(Weird),Int)": lambda: Either(T.Supports(Weird), Int), "Dict(Enum,Int)": lambda: T.Dict(Enum(1, 2), Int),
    "Either(Type(Weird),Int)": lambda: Either(T.Type(Weird), Int), "Union(Instance(Weird),Int)": lambda: T.Union(Instance(Weird), Int),
    "Either(Tuple(Int,Int),Int)": lambda: Either(Tuple(Int, Int), Int), "Any": lambda: Any(),
}
PVALS = {
    "BadEq": lambda: BadEq(), "BadHash": lambda: BadHash(), "BadBool": lambda: BadBool(), "BadIdx": lambda: BadIdx(),
    "BadFloat": lambda: BadFloat(), "Weird": lambda: Weird, "Weird()": lambda: Weird(), "(BadEq,1)": lambda: (BadEq(), 1),
    "(1,BadIdx)": lambda: (1, BadIdx()), "[BadEq]": lambda: [BadEq()], "None": lambda: None, "1": lambda: 1, "a": lambda: "a",
}


def protocol_gen(tier, shard, nshards):
    n = 0
    for cfg in PCFG:
        for val in PVALS:
            for named in (False, True):
                if n % nshards == shard:
                    yield {"cfg": cfg, "val": val, "hostile_name": named}
                n += 1


def protocol_run(case, ctx):
    t = PCFG[case["cfg"]]()
    cls = type("O", (HasTraits,), {"x": t, "_x_changed": lambda self: None})
    # fault-free run counts the hostile calls, then every k is armed
    ARM.update(n=0, at=None)
    name = BadStr("x") if case["hostile_name"] else "x"

    def attempt():
        o = cls()
        v = PVALS[case["val"]]()
        rc0 = sys.getrefcount(name)
        out = None
        try:
            setattr(o, name, v)
            out = "ok"
        except TraitError:
            out = "TE"
        except SystemError as e:
            ARM["at"] = None
            ctx.fail("systemerror/protocol", "%r: SystemError %r" % (case, e))
        except Exception as e:
            out = type(e).__name__
        at = ARM["at"]
        ARM["at"] = None
        e = stale_error()
        if e is not None:
            ctx.fail("stale-error/protocol", "%r (hostile call #%s): assignment outcome %r left the error indicator set: %r"
                     % (case, at, out, e))
        try:
            getattr(o, name)
        except Exception:
            pass
        e = stale_error()
        if e is not None:
            ctx.fail("stale-error/protocol", "%r: read left the error indicator set: %r" % (case, e))
        if case["hostile_name"]:
            # references held by the object's own state (its __dict__ key ...) go away with the object
            del o
            ARM["at"] = None
            gc.collect()
            d = sys.getrefcount(name) - rc0
            if d != 0:
                ctx.fail("refcount/name-object", "%r (hostile call #%s, outcome %r): refcount of the attribute-name object changed by %d"
                         % (case, at, out, d))
        return out
    attempt()
    n = ARM["n"]
    ctx.evaluations -= 1
    ctx.add_evals(1)
    for k in range(1, n + 1):
        ARM.update(n=0, at=k)
        ctx.add_evals(1)
        attempt()
        ctx.nontrivial(key=[case, k])
    ARM.update(n=0, at=None)


# ----------------------------------------------------------------------------- reference neutrality (plain build)
class V:
    pass


def fn_validator(obj, name, value):
    if isinstance(value, V):
        return value
    raise TraitError("no")


class RO(HasTraits):
    a = Any
    i = Int
    f = Float
    r = Range(0.0, 1.0)
    t = Tuple(Int, Any)
    inst = Instance(V)
    l = List(Any)
    e = Either(Int, Instance(V))
    er = Either(Range(0.0, 1.0), Str, Instance(V))
    er2 = Trait(None, Range(0.0, 1.0), Range(2.0, 3.0), Str)
    en = Enum(1, 2, 3)
    mp = Map({"a": 1})
    fv = Trait(None, fn_validator)
    ev = Event
    ro = ReadOnly
    p = Property
    d = DelegatesTo("peer", "a")
    pf = PrototypedFrom("peer", "a")
    peer = Instance(HasTraits)
    cs = T.CStr
    cal = T.Callable
    ty = T.Type(V)

    def _get_p(self):
        return self.__dict__.get("_p")

    def _set_p(self, v):
        self.__dict__["_p"] = v

    def _a_changed(self, old, new):
        pass


def tryset(o, n, v):
    try:
        setattr(o, n, v)
    except Exception:
        pass


def refcount_table():
    o = RO()
    o.peer = RO()
    h = lambda obj, n, old, new: None
    oh = lambda e: None
    o.on_trait_change(h, "a")
    o.observe(oh, "a")
    o.ro = 1
    bigint = 10 ** 30
    fl = 1234.5678
    fl2 = 7.25
    tup = (1, V())
    v, other = V(), V()
    s = "x" * 50
    lst = [V()]
    ops = {
        "any set/reset": (lambda: (setattr(o, "a", v), setattr(o, "a", other)), [v, other, o]),
        "int set valid": (lambda: (setattr(o, "i", bigint), setattr(o, "i", 0)), [bigint, o]),
        "int set invalid": (lambda: tryset(o, "i", v), [v, o]),
        "float set": (lambda: (setattr(o, "f", fl), setattr(o, "f", 0.0)), [fl]),
        "range invalid": (lambda: tryset(o, "r", v), [v]),
        "range out of range": (lambda: tryset(o, "r", fl), [fl]),
        "tuple valid": (lambda: (setattr(o, "t", tup), setattr(o, "t", (0, None))), [tup, tup[1]]),
        "tuple invalid": (lambda: tryset(o, "t", (v, v)), [v]),
        "instance valid": (lambda: (setattr(o, "inst", v), setattr(o, "inst", None)), [v]),
        "instance invalid": (lambda: tryset(o, "inst", s), [s]),
        "list assign": (lambda: (setattr(o, "l", lst), setattr(o, "l", [])), [lst, lst[0]]),
        "either via 2nd": (lambda: (setattr(o, "e", v), setattr(o, "e", 0)), [v]),
        "either invalid": (lambda: tryset(o, "e", s), [s]),
        "compound: float range rejects, later alternative accepts": (lambda: (setattr(o, "er", v), setattr(o, "er", "z")), [v]),
        "compound: out-of-range float rejected by all": (lambda: tryset(o, "er", fl), [fl]),
        "compound: out-of-range float, then string": (lambda: (tryset(o, "er2", fl), setattr(o, "er2", s)), [fl, s]),
        "compound: float accepted by second range": (lambda: (setattr(o, "er2", 2.5 + fl2 - fl2), setattr(o, "er2", "z")), [o]),
        "enum invalid": (lambda: tryset(o, "en", v), [v]),
        "map invalid": (lambda: tryset(o, "mp", v), [v]),
        "fn validator ok": (lambda: (setattr(o, "fv", v), setattr(o, "fv", other)), [v, other, fn_validator]),
        "fn validator bad": (lambda: tryset(o, "fv", s), [s, fn_validator]),
        "event": (lambda: setattr(o, "ev", v), [v]),
        "property": (lambda: (setattr(o, "p", v), setattr(o, "p", None), o.p), [v]),
        "delegate set": (lambda: (setattr(o, "d", v), setattr(o, "d", None)), [v, o.peer]),
        "delegate get": (lambda: (setattr(o.peer, "a", v), o.d, setattr(o.peer, "a", None)), [v, o.peer]),
        "prototype set/del": (lambda: (setattr(o, "pf", v), delattr(o, "pf")), [v, o.peer]),
        "getattr default+del": (lambda: (o.l, delattr(o, "l")), [o]),
        "add/remove trait": (lambda: (o.add_trait("zz", Int), o.remove_trait("zz")), [o]),
        "otc add/remove": (lambda: (o.on_trait_change(h, "i"), o.on_trait_change(h, "i", remove=True)), [h, o]),
        "observe add/remove": (lambda: (o.observe(oh, "i"), o.observe(oh, "i", remove=True)), [oh, o]),
        "validate direct": (lambda: o.trait("i").validate(o, "i", 3), [o]),
        "trait clone": (lambda: o.trait("i", copy=True), [o.trait("i")]),
        "pickle ctrait": (lambda: pickle.loads(pickle.dumps(o.trait("i"))), [o.trait("i"), o.trait("i").handler]),
        "readonly fail": (lambda: tryset(o, "ro", v), [v]),
        "cast str": (lambda: (setattr(o, "cs", v), setattr(o, "cs", "")), [v]),
        "callable": (lambda: (setattr(o, "cal", h), setattr(o, "cal", None), tryset(o, "cal", s)), [h, s]),
        "type": (lambda: (setattr(o, "ty", V), tryset(o, "ty", v)), [v]),
    }
    return ops


def refcount_gen(tier, shard, nshards):
    names = sorted(refcount_table())
    for i, n in enumerate(names):
        if i % nshards == shard:
            yield {"op": n}


def refcount_run(case, ctx):
    op, tracked = refcount_table()[case["op"]]

    def rep(n):
        for _ in range(n):
            op()
        gc.collect()
        return [sys.getrefcount(x) for x in tracked]
    op()
    gc.collect()
    r0 = [sys.getrefcount(x) for x in tracked]
    r1 = rep(10)
    r2 = rep(30)
    ctx.nontrivial()
    for idx, (a, b, c) in enumerate(zip(r0, r1, r2)):
        if b - a or c - b:
            kind = "over-release" if (b - a < 0 or c - b < 0) else "leak"
            ctx.fail("refcount/" + kind, "operation %r: refcount of tracked object #%d changed by %+d after 10 and %+d after 30 more "
                     "repetitions (expected 0)" % (case["op"], idx, b - a, c - b))


# ----------------------------------------------------------------------------- generated reference-neutrality grid
def _mortal(x):
    return sys.getrefcount(x) < 10 ** 9          # (immortal objects - small ints, None, interned strings - hide leaks)


def _parts(v, acc, depth=0):
    """The value and every object nested in it (tuple / list / set / dict members), mortal ones only."""
    if _mortal(v):
        acc.append(v)
    if depth < 3:
        if isinstance(v, (tuple, list, set, frozenset)):
            for i in v:
                _parts(i, acc, depth + 1)
        elif isinstance(v, dict):
            for a, b in v.items():
                _parts(a, acc, depth + 1)
                _parts(b, acc, depth + 1)
    return acc


def _sentinels():
    from traits.trait_base import Undefined, Uninitialized
    return Undefined, Uninitialized


def refgrid_values():
    """Lattice values plus containers whose items are MORTAL objects that validation replaces (conversion inside a
    Tuple / List / Dict / Set is where a reference to the original item is taken and must be given back)."""
    from vf import lattice as L, values as Vv
    out = [(repr(e), (lambda e=e: Vv.dec(e))) for e, _ in L.all_values()]
    extra = {
        "(Idx(1), 2)": lambda: (L.Idx(1), 2), "(MyInt(1), MyStr('a'))": lambda: (L.MyInt(1), L.MyStr("a")),
        "(2**70, 'abc'*9)": lambda: (2 ** 70, "abc" * 9), "(MyFloat(0.5), Idx(2))": lambda: (L.MyFloat(0.5), L.Idx(2)),
        "(Flt(0.5), 1000003)": lambda: (L.Flt(0.5), 1000003), "(1000003, (Flt(0.5), True))": lambda: (1000003, (L.Flt(0.5), True)),
        "(V(), 1000003)": lambda: (V(), 1000003), "(1000003, V())": lambda: (1000003, V()), "(Idx(1), V())": lambda: (L.Idx(1), V()),
        "[Idx(1), 1000003]": lambda: [L.Idx(1), 1000003], "[MyInt(3)]": lambda: [L.MyInt(3)], "[1000003, V()]": lambda: [1000003, V()],
        "[Flt(0.5)]": lambda: [L.Flt(0.5)], "{'k'*9: Idx(1)}": lambda: {"k" * 9: L.Idx(1)}, "{1000003: Flt(0.5)}": lambda: {1000003: L.Flt(0.5)},
        "{MyStr: 1000003}": lambda: {L.MyStr("q" * 7): 1000003}, "{MyInt(1000003)}": lambda: {L.MyInt(1000003)},
        "{'s'*9}": lambda: {"s" * 9}, "(1000003, 1000003)": lambda: (1000003, 1000007), "('yes'*1, 5)": lambda: ("ye" + "s", 5),
        "1000003.5": lambda: 1000003.5, "'ye'": lambda: "".join(["y", "e"]), "Idx(1)": lambda: L.Idx(1), "Flt(0.5)": lambda: L.Flt(0.5),
        "Cpx(1j)": lambda: L.Cpx(1j), "MyInt(2)": lambda: L.MyInt(2), "2**70": lambda: 2 ** 70, "V()": lambda: V(),
        # the library's own sentinels (ordinary, mortal singletons): assigning them bypasses validation by design
        "Undefined": lambda: _sentinels()[0], "Uninitialized": lambda: _sentinels()[1], "(Undefined, 1000003)": lambda: (_sentinels()[0], 1000003),
    }
    out += sorted(extra.items())
    return out


def refgrid_gen(tier, shard, nshards):
    from vf import lattice as L
    specs = [sp for sp in L.grid() if sp != ["None"]]
    for i, sp in enumerate(specs):
        if i % nshards == shard:
            yield {"spec": sp}


def refgrid_run(case, ctx):
    """For every value: assign it to a FRESH object (whatever the outcome), drop the object; after 1, 11 and 41
    repetitions the reference counts of the value and of everything nested in it are the same."""
    from vf import lattice as L
    spec = case["spec"]
    cls = type("RG", (HasTraits,), {"x": L.build(spec)})
    vals = refgrid_values() if "value" not in case else [v for v in refgrid_values() if v[0] == case["value"]]
    ctx.evaluations -= 1
    for vname, mk in vals:
        try:
            v = mk()
        except Exception:
            continue
        if L.hazardous(spec, v):
            continue
        tracked = _parts(v, [])
        if not tracked:
            continue
        ctx.add_evals(1)

        def op():
            o = cls()
            try:
                o.x = v
            except Exception:
                pass
            try:
                o.x
            except Exception:
                pass
            del o

        payloads = [t.v for t in tracked if isinstance(getattr(t, "v", None), BaseException)]

        def rep(n, collect=False):
            for _ in range(n):
                op()
                for e in payloads:
                    e.__traceback__ = None       # (re-raising one exception instance makes ITS traceback grow: Python, not traits)
            if collect:
                gc.collect()                     # (TraitError <-> traceback <-> frame cycles keep items until collected)
            return [sys.getrefcount(t) for t in tracked]
        with warnings.catch_warnings():
            warnings.simplefilter("ignore")
            try:
                r0 = rep(1)
                r1 = rep(10)
                r2 = rep(30)
                if r0 != r1 or r1 != r2:
                    # confirm with cyclic garbage out of the way
                    r0 = rep(1, True)
                    r1 = rep(10, True)
                    r2 = rep(30, True)
            except RecursionError:
                continue
        if len(tracked) > 1:
            ctx.nontrivial(key=[spec, vname], sample={"spec": spec, "value": vname})
        for idx, (a, b, c) in enumerate(zip(r0, r1, r2)):
            if b - a or c - b:
                kind = "over-release" if (b - a < 0 or c - b < 0) else "leak"
                ctx.report("refcount/" + kind, "spec=%s value=%s: the reference count of tracked part #%d (%r) changed by %+d after 10 "
                           "and %+d after 30 more assignments to fresh objects (expected 0)"
                           % (L.spec_id(spec), vname, idx, type(tracked[idx]).__name__, b - a, c - b),
                           {"spec": spec, "value": vname})
                break


# ----------------------------------------------------------------------------- failing defaults under every warnings filter
class _Boom(Exception):
    pass


# ("none": the callback does not raise, it returns one persistent mortal object whose reference count is then watched)
DF_EXC = {"AttributeError": AttributeError, "TraitError": TraitError, "KeyError": KeyError, "Boom": _Boom, "none": None}
DF_FILTERS = ["default", "error", "ignore", "always"]
DF_KINDS = ["method", "factory", "property-getter", "delegate-default", "expression-method", "list-method", "validated-any-method"]
DF_ARMED = [False]
DF_ROUTES = ["getattr", "trait_get", "setattr-reads-old", "hasattr"]


def deffault_gen(tier, shard, nshards):
    i = 0
    for kind in DF_KINDS:
        for exc in DF_EXC:
            for flt in DF_FILTERS:
                for route in DF_ROUTES:
                    if i % nshards == shard:
                        yield {"kind": kind, "exc": exc, "filter": flt, "route": route}
                    i += 1
    # deleting a STORED value of a listened-to trait computes the replacement default for the notification: the stored
    # object's reference count must not drift whether that succeeds or raises
    for kind in ("any-method-listened", "list-method-listened"):
        for exc in DF_EXC:
            for flt in ("default", "error"):
                if i % nshards == shard:
                    yield {"kind": kind, "exc": exc, "filter": flt, "route": "del-stored"}
                i += 1


def deffault_run(case, ctx):
    """A default-value callback raises the SAME exception instance every time; whatever the warnings filter turns that
    into, the instance's reference count does not drift and what is raised stays a live object."""
    E = DF_EXC[case["exc"]]
    kind = case["kind"]
    if E is None:
        inst = {"expression-method": "1 + 10 ** 6 + %d" % id(case), "list-method": [10 ** 30], "method": 10 ** 30 + 7}.get(kind, V())

        def boom(*a):
            return inst
    else:
        inst = E("the default fails")

        def boom(*a):
            if case["route"] == "del-stored" and not DF_ARMED[0]:
                return V() if kind == "any-method-listened" else []       # (the assignment that stores the value must succeed)
            raise inst
    stored = V() if kind == "any-method-listened" else [V()]
    if kind == "any-method-listened":
        cls = type("DF", (HasTraits,), {"x": Any, "_x_default": lambda self: boom(), "_x_changed": lambda self: None})
    elif kind == "list-method-listened":
        cls = type("DF", (HasTraits,), {"x": List(Any), "_x_default": lambda self: boom(), "_x_changed": lambda self: None})
    elif kind == "method":
        cls = type("DF", (HasTraits,), {"x": Int, "_x_default": lambda self: boom()})
    elif kind == "factory":
        cls = type("DF", (HasTraits,), {"x": Any(factory=boom)})
    elif kind == "property-getter":
        cls = type("DF", (HasTraits,), {"x": Property(Int), "_get_x": lambda self: boom(), "_set_x": lambda self, v: None})
    elif kind == "expression-method":
        # a callable default on a trait with a validator AND the "store the original value" flag
        cls = type("DF", (HasTraits,), {"x": T.Expression, "_x_default": lambda self: boom()})
    elif kind == "list-method":
        cls = type("DF", (HasTraits,), {"x": List(Any), "_x_default": lambda self: boom()})
    elif kind == "validated-any-method":
        cls = type("DF", (HasTraits,), {"x": T.Instance(object), "_x_default": lambda self: boom()})
    else:
        pc = type("DP", (HasTraits,), {"x": Int, "_x_default": lambda self: boom()})
        cls = type("DF", (HasTraits,), {"p": Instance(pc, ()), "x": DelegatesTo("p")})
    ctx.nontrivial()

    def op():
        o = cls()
        caught = None
        with warnings.catch_warnings():
            warnings.simplefilter(case["filter"])
            try:
                if case["route"] == "getattr":
                    o.x
                elif case["route"] == "trait_get":
                    o.trait_get("x")
                elif case["route"] == "hasattr":
                    hasattr(o, "x")
                elif case["route"] == "del-stored":
                    DF_ARMED[0] = False
                    o.x = stored
                    DF_ARMED[0] = True
                    try:
                        del o.x
                    finally:
                        DF_ARMED[0] = False
                else:
                    o.x = 3
            except BaseException as e:
                caught = e
        if caught is not None:
            # what was raised (and its cause / context chain) must be live, well-formed objects
            seen = 0
            e = caught
            while e is not None and seen < 5:
                repr(e), str(e), type(e).__name__
                e = e.__cause__ or e.__context__
                seen += 1
            caught.__traceback__ = None
        del caught, o
        e = stale_error()
        if e is not None:
            ctx.fail("stale-error/default", "%r left the error indicator set: %r" % (case, e))
    def clean():
        # (first drop what the re-raised exception instance drags along - its traceback holds the frames, the frames the
        #  objects - and only then collect the cycles those objects are part of)
        if isinstance(inst, BaseException):
            inst.__traceback__ = None
            inst.__context__ = None
        gc.collect()
    watched = stored if kind == "any-method-listened" else stored[0]
    op()
    clean()
    r0, s0 = sys.getrefcount(inst), sys.getrefcount(watched)
    for _ in range(10):
        op()
    clean()
    r1, s1 = sys.getrefcount(inst), sys.getrefcount(watched)
    for _ in range(30):
        op()
    clean()
    r2, s2 = sys.getrefcount(inst), sys.getrefcount(watched)
    if r1 - r0 or r2 - r1:
        kindb = "over-release" if (r1 - r0 < 0 or r2 - r1 < 0) else "leak"
        ctx.fail("refcount/" + kindb, "%r: the reference count of the object the default callback raises / returns changed by %+d after 10 and %+d "
                 "after 30 more repetitions (expected 0)" % (case, r1 - r0, r2 - r1))
    if case["route"] == "del-stored" and (s1 - s0 or s2 - s1):
        kindb = "over-release" if (s1 - s0 < 0 or s2 - s1 < 0) else "leak"
        ctx.fail("refcount/" + kindb, "%r: the reference count of the STORED value that was deleted (or not, when the default raised) changed "
                 "by %+d after 10 and %+d after 30 more repetitions (expected 0)" % (case, s1 - s0, s2 - s1))


# ----------------------------------------------------------------------------- the cTrait object's own attribute API
WEIRD = [None, 0, 1, -1, "s", 1.5, object, [], {}, (), 2 ** 70, len, True, ("a", 1), b"b"]


class _Fresh:
    pass


class _FreshStr(str):
    pass


def _overwrite_ops():
    from traits.ctrait import CTrait
    ops = {}
    ops["handler"] = (lambda: Int().as_ctrait(), _Fresh, lambda t, o: setattr(t, "handler", o))
    ops["post_setattr"] = (lambda: Int().as_ctrait(), lambda: (lambda *a: None), lambda t, o: setattr(t, "post_setattr", o))
    ops["clone-self"] = (lambda: CTrait(0), _Fresh, lambda t, o: (setattr(t, "handler", o), t.clone(t)))
    ops["clone-other"] = (lambda: CTrait(0), _Fresh, lambda t, o: (lambda src: (setattr(src, "handler", o), t.clone(src)))(CTrait(0)))
    ops["property_fields"] = (lambda: T.Property(lambda s_: 1, lambda s_, v: None).as_ctrait(), lambda: (lambda self: 1),
                              lambda t, o: setattr(t, "property_fields", (o, lambda s_, v: None, None)))
    ops["property_fields-validate"] = (lambda: T.Property(lambda s_: 1, lambda s_, v: None).as_ctrait(), lambda: (lambda self, v: v),
                                       lambda t, o: setattr(t, "property_fields", (lambda s_: 1, lambda s_, v: None, o)))
    ops["delegate-name"] = (lambda: DelegatesTo("d").as_ctrait(), lambda: _FreshStr("dname"), lambda t, o: t.delegate(o, "", 0, True))
    ops["delegate-prefix"] = (lambda: DelegatesTo("d").as_ctrait(), lambda: _FreshStr("pre"), lambda t, o: t.delegate("d", o, 1, True))
    ops["set_validate"] = (lambda: Int().as_ctrait(), lambda: (lambda o_, n, v: v), lambda t, o: t.set_validate(o))
    ops["set_default_value"] = (lambda: Int().as_ctrait(), _Fresh, lambda t, o: t.set_default_value(0, o))
    ops["__dict__"] = (lambda: Int().as_ctrait(), dict, lambda t, o: setattr(t, "__dict__", o))
    return ops


OVERWRITE = ["handler", "post_setattr", "clone-self", "clone-other", "property_fields", "property_fields-validate", "delegate-name",
             "delegate-prefix", "set_validate", "set_default_value", "__dict__"]
DV_EXTRA = [(int, 5, 6), (int, (), None), (int, (), {}), (len, ([],), None), (int,), (1, 2, 3), (int, [], {})]
PREFIX_VALUES = ["<missing>", "p_", "", 5, None, b"p_", ("p_",), 1.5]


def _fn_arity(n, ret=None):
    """A plain function with exactly n positional parameters."""
    ns = {}
    exec("def f(%s):\n    return RET" % ", ".join("a%d" % i for i in range(n)), {"RET": ret}, ns)
    return ns["f"]


def _ct_attrs():
    from traits.ctraits import cTrait
    from traits.ctrait import CTrait
    names = set()
    for klass in (cTrait, CTrait):
        for n, v in vars(klass).items():
            if type(v).__name__ in ("getset_descriptor", "property", "member_descriptor"):
                names.add(n)
    return sorted(names)


def ctapi_gen(tier, shard, nshards):
    i = 0
    cases = []
    for a in _ct_attrs():
        for base in ("raw", "int", "list", "prop", "delegate", "vprop"):
            cases.append({"what": "del", "attr": a, "base": base})
            for vi in range(len(WEIRD)):
                cases.append({"what": "set", "attr": a, "base": base, "val": vi})
    # (kinds 3 = delegate and 4 = property are shells that traits itself completes with delegate() / property_fields
    #  before any use; driving the unconfigured shell is not an API use, see DESIGN §16)
    for k in [-1, 0, 1, 2, 5, 6, 7, 8, 9, 100, 2 ** 40]:
        cases.append({"what": "rawkind", "kind": k})
    for variant in ("non-hastraits", "none", "missing", "cycle", "ok"):
        cases.append({"what": "base_trait", "variant": variant})
    # set_default_value(kind, value) with every kind number x odd values (accepted or refused), then the definition is used
    for base in ("raw", "int", "list"):
        for kind_ in range(-1, 12):
            for vi in range(len(WEIRD) + len(DV_EXTRA)):
                cases.append({"what": "setdefault", "base": base, "kind": kind_, "val": vi})
    # the same field of one cTrait written again and again: only the last object written may stay referenced
    for target in OVERWRITE:
        cases.append({"what": "overwrite", "target": target})
    # Property getters / setters / validators of every positional arity 0..6 (traits documents 0-3 resp. 0-3 and refuses
    # the rest when the Property is defined): define, then get / set / delete through an object
    for g in range(0, 7):
        for st_ in range(0, 7):
            for validated in (False, True):
                cases.append({"what": "proparity", "get": g, "set": st_, "validated": validated})
    # 'prefix*' / '*' delegates on classes whose __prefix__ is not a string (or is missing)
    for pv in range(len(PREFIX_VALUES)):
        for style in ("star", "prestar"):
            for listenable in (False, True):
                for hops in (1, 2):
                    cases.append({"what": "oddprefix", "prefix": pv, "style": style, "listenable": listenable, "hops": hops})
                # two hops whose MIDDLE object is a temporary (a property builds a fresh one at every access): the core holds
                # the only reference to it while it resolves the second hop's name from that object's class
                cases.append({"what": "oddprefix", "prefix": pv, "style": style, "listenable": listenable, "hops": 2, "temp": True})
    for c in cases:
        if i % nshards == shard:
            yield c
        i += 1


def _ct_make(base):
    from traits.ctrait import CTrait
    if base == "raw":
        return CTrait(0)
    if base == "int":
        return Int(3).as_ctrait()
    if base == "list":
        return List(Int).as_ctrait()
    if base == "prop":
        return T.Property(lambda self: 1, lambda self, v: None).as_ctrait()
    if base == "vprop":
        # a Property WITH a validating trait (its assignment path calls validate, then post_setattr = the user's setter)
        return T.Property(lambda self: 1, lambda self, v: None, trait=Int).as_ctrait()
    return DelegatesTo("peer").as_ctrait()


def _exercise(ct):
    """Use a (possibly mangled) cTrait every way an object would."""
    def quiet(f):
        try:
            f()
        except RecursionError:
            raise
        except Exception:
            pass
    h = type("CH", (HasTraits,), {"peer": Instance(HasTraits)})()
    h.peer = Peer()
    quiet(lambda: ct.validate(h, "q", 1))
    quiet(lambda: ct.default_value())
    quiet(lambda: ct.default_value_for(h, "q"))
    quiet(lambda: ct.clone(ct))
    quiet(lambda: pickle.loads(pickle.dumps(ct)))
    quiet(lambda: h.add_trait("q", ct))
    quiet(lambda: getattr(h, "q"))
    quiet(lambda: setattr(h, "q", 2))
    quiet(lambda: getattr(h, "q"))
    quiet(lambda: setattr(h, "q", "x"))
    quiet(lambda: delattr(h, "q"))
    quiet(lambda: h.trait("q"))
    quiet(lambda: h.base_trait("q"))
    quiet(lambda: h.remove_trait("q"))
    for a in _ct_attrs():
        quiet(lambda: getattr(ct, a))
    del h


def ctapi_run(case, ctx):
    from traits.ctrait import CTrait
    what = case["what"]
    ctx.nontrivial()
    if what in ("del", "set"):
        ct = _ct_make(case["base"])
        try:
            if what == "del":
                delattr(ct, case["attr"])
            else:
                v = WEIRD[case["val"]]
                setattr(ct, case["attr"], v() if v is object else v)
        except RecursionError:
            raise
        except SystemError as e:
            ctx.fail("systemerror/ctrait-api", "%r raised %r" % (case, e))
        except Exception:
            ctx.label("refused")
        e = stale_error()
        if e is not None:
            ctx.fail("stale-error/ctrait-api", "%r left the error indicator set: %r" % (case, e))
        _exercise(ct)
    elif what == "setdefault":
        ct = _ct_make(case["base"])
        vals = WEIRD + DV_EXTRA
        v = vals[case["val"]]
        try:
            ct.set_default_value(case["kind"], v() if v is object else v)
        except RecursionError:
            raise
        except SystemError as e:
            ctx.fail("systemerror/ctrait-api", "%r raised %r" % (case, e))
        except Exception:
            ctx.label("refused")
        e = stale_error()
        if e is not None:
            ctx.fail("stale-error/ctrait-api", "%r left the error indicator set: %r" % (case, e))
        _exercise(ct)
    elif what == "overwrite":
        mk_trait, mk_obj, op = _overwrite_ops()[case["target"]]
        t = mk_trait()
        o = mk_obj()
        try:
            op(t, o)
        except Exception:
            ctx.label("refused")
            return
        r0 = sys.getrefcount(o)
        for _ in range(10):
            op(t, o)
        gc.collect()
        r1 = sys.getrefcount(o)
        for _ in range(30):
            op(t, o)
        gc.collect()
        r2 = sys.getrefcount(o)
        if r1 - r0 or r2 - r1:
            ctx.fail("refcount/" + ("over-release" if (r1 < r0 or r2 < r1) else "leak"),
                     "writing the same object into %s of one cTrait again and again changes its reference count by %+d after 10 and %+d "
                     "after 30 more writes (the trait can only hold one reference)" % (case["target"], r1 - r0, r2 - r1))
        e = stale_error()
        if e is not None:
            ctx.fail("stale-error/ctrait-api", "%r left the error indicator set: %r" % (case, e))
    elif what == "proparity":
        def quiet(f):
            try:
                f()
            except RecursionError:
                raise
            except SystemError as e:
                ctx.fail("systemerror/ctrait-api", "%r raised %r" % (case, e))
            except Exception:
                ctx.label("refused")
        try:
            prop = T.Property(_fn_arity(case["get"], 1), _fn_arity(case["set"]), trait=(Int if case["validated"] else None)) \
                if case["validated"] else T.Property(_fn_arity(case["get"], 1), _fn_arity(case["set"]))
            H = type("PA", (HasTraits,), {"p": prop})
        except SystemError as e:
            ctx.fail("systemerror/ctrait-api", "%r raised %r" % (case, e))
        except Exception:
            ctx.label("refused")
            return
        h = H()
        quiet(lambda: h.p)
        quiet(lambda: setattr(h, "p", 2))
        quiet(lambda: setattr(h, "p", "x"))
        quiet(lambda: delattr(h, "p"))
        quiet(lambda: h.trait_property_changed("p", 1, 2))
        quiet(lambda: pickle.loads(pickle.dumps(H.__class_traits__["p"])))
        quiet(lambda: h.add_trait("q", prop))
        quiet(lambda: setattr(h, "q", 3))
        quiet(lambda: h.q)
        e = stale_error()
        if e is not None:
            ctx.fail("stale-error/ctrait-api", "%r left the error indicator set: %r" % (case, e))
    elif what == "oddprefix":
        def quiet(f):
            try:
                f()
            except RecursionError:
                raise
            except SystemError as e:
                ctx.fail("systemerror/ctrait-api", "%r raised %r" % (case, e))
            except Exception:
                ctx.label("refused")
        pv = PREFIX_VALUES[case["prefix"]]
        pat = "*" if case["style"] == "star" else "p_*"
        try:
            Dn = type("OD", (HasTraits,), {"foo": Int(3), "p_foo": Int(4)})
            ns = {"d": Instance(Dn, ()), "foo": DelegatesTo("d", prefix=pat, listenable=case["listenable"])}
            if pv != "<missing>":
                ns["__prefix__"] = pv
            A1 = type("OA", (HasTraits,), ns)
            top = A1
            if case["hops"] == 2 and case.get("temp"):
                top = type("OB", (HasTraits,), {"a": T.Property(fget=lambda self: A1()),
                                                "foo": DelegatesTo("a", listenable=False)})
            elif case["hops"] == 2:
                top = type("OB", (HasTraits,), {"a": Instance(A1, ()), "foo": DelegatesTo("a", listenable=case["listenable"])})
        except SystemError as e:
            ctx.fail("systemerror/ctrait-api", "%r raised %r" % (case, e))
        except Exception:
            ctx.label("refused")
            return
        with warnings.catch_warnings():
            warnings.simplefilter("ignore")
            push_exception_handler(handler=lambda *args: None, reraise_exceptions=False, main=True)
            try:
                o = None
                try:
                    o = top()
                except Exception:
                    ctx.label("refused")
                if o is not None:
                    quiet(lambda: o.foo)
                    quiet(lambda: setattr(o, "foo", 7))
                    quiet(lambda: setattr(o, "foo", "bad"))
                    quiet(lambda: delattr(o, "foo"))
                    quiet(lambda: o.base_trait("foo"))
                    quiet(lambda: o.trait("foo"))
                    quiet(lambda: o.on_trait_change(lambda: None, "foo"))
                    quiet(lambda: o.foo)
            finally:
                pop_exception_handler()
        e = stale_error()
        if e is not None:
            ctx.fail("stale-error/ctrait-api", "%r left the error indicator set: %r" % (case, e))
    elif what == "rawkind":
        try:
            ct = CTrait(case["kind"])
        except Exception:
            ctx.label("refused")
            return
        _exercise(ct)
    else:
        # base_trait() of a delegated trait along working and broken delegation chains: reference-neutral either way
        variant = case["variant"]
        A = type("BA", (HasTraits,), {"p": Any, "x": DelegatesTo("p")})
        a = A()
        with warnings.catch_warnings():
            warnings.simplefilter("ignore")
            push_exception_handler(handler=lambda *args: None, reraise_exceptions=False, main=True)
            try:
                if variant == "non-hastraits":
                    a.p = 5
                elif variant == "none":
                    a.p = None
                elif variant == "missing":
                    a.p = Peer()            # Peer has no 'x': bad delegate
                elif variant == "cycle":
                    a.p = a
                else:
                    a.p = type("BP", (HasTraits,), {"x": Int})()
            finally:
                pop_exception_handler()
        t = A.__class_traits__["x"]

        def op():
            try:
                a.base_trait("x")
            except RecursionError:
                raise
            except Exception:
                pass
        op()
        r0 = sys.getrefcount(t)
        for _ in range(10):
            op()
        r1 = sys.getrefcount(t)
        for _ in range(30):
            op()
        r2 = sys.getrefcount(t)
        if r1 - r0 or r2 - r1:
            ctx.fail("refcount/" + ("over-release" if (r1 < r0 or r2 < r1) else "leak"),
                     "base_trait('x') with delegate variant %r changes the reference count of the class trait by %+d after 10 and %+d "
                     "after 30 more calls" % (variant, r1 - r0, r2 - r1))
        e = stale_error()
        if e is not None:
            ctx.fail("stale-error/ctrait-api", "%r left the error indicator set: %r" % (case, e))


# ----------------------------------------------------------------------------- delegation cycles
def cycles_gen(tier, shard, nshards):
    n = 0
    for length in (1, 2, 3, 4):
        for kind in ("del", "proto"):
            for op in ("get", "set", "del", "hasattr", "trait_get", "validate"):
                for listen in (False, True):
                    if n % nshards == shard:
                        yield {"length": length, "kind": kind, "op": op, "listen": listen}
                    n += 1


def cycles_run(case, ctx):
    """A deferring attribute whose chain of delegates is a CYCLE through `length` distinct objects: every access ends in a
    Python exception (RecursionError / DelegationError / TraitError / AttributeError), never in a crash, and the objects are
    usable afterwards."""
    from traits.api import DelegatesTo, PrototypedFrom, DelegationError
    D = DelegatesTo if case["kind"] == "del" else PrototypedFrom
    N = type("CyN", (HasTraits,), {"peer": Instance(HasTraits), "x": D("peer"), "other": Int(1)})
    nodes = [N() for _ in range(case["length"])]
    for i, n in enumerate(nodes):
        n.peer = nodes[(i + 1) % len(nodes)]
    a = nodes[0]
    if case["listen"]:
        a.on_trait_change(lambda: None, "other")
    if len(nodes) > 1:
        ctx.nontrivial()
    op = case["op"]
    try:
        if op == "get":
            a.x
        elif op == "set":
            a.x = 3
        elif op == "del":
            del a.x
        elif op == "hasattr":
            hasattr(a, "x")
        elif op == "trait_get":
            a.trait_get("x")
        else:
            a.validate_trait("x", 3)
        ctx.label("returned")
    except (RecursionError, DelegationError, TraitError, AttributeError) as e:
        ctx.label("raised:" + type(e).__name__)
    except Exception as e:
        ctx.fail("cycle/exception-class", "%r: %s raised %r" % (case, op, e))
    # still usable
    a.other = 5
    if a.other != 5:
        ctx.fail("cycle/unusable", "%r: the object is unusable after the failed access" % (case,))
    for n in nodes:
        n.peer = None


def stages(tier):
    out = [reuse_stage(m, s, d, tier) for m, s, d in REUSE]
    out.append({"name": "reentrant", "kind": "hyp", "strategy": reentrant_strategy, "run": reentrant_run, "flavour": "asan",
                "examples": {"quick": 600, "thorough": 20000}, "shards": 16})
    if tier == "thorough":
        # coverage-guided: libFuzzer (edge counters inside ctraits.so, ASan) mutates the byte stream of the re-entrant
        # program strategy
        out.append({"name": "fuzz-reentrant", "kind": "fuzz", "flavour": "fuzz", "strategy": reentrant_strategy_small,
                    "run": reentrant_run, "shards": 8, "max_len": 1024, "runs": {"quick": 2000, "thorough": 160000}})
    out.append({"name": "protocol", "kind": "enum", "gen": protocol_gen, "run": protocol_run, "flavour": "asan", "shards": 8,
                "exhaustive": True})
    out.append({"name": "refcount", "kind": "enum", "gen": refcount_gen, "run": refcount_run, "flavour": "plain", "shards": 4,
                "exhaustive": True})
    out.append({"name": "refgrid", "kind": "enum", "batch": True, "gen": refgrid_gen, "run": refgrid_run, "flavour": "plain",
                "shards": 16, "exhaustive": True})
    out.append({"name": "ctrait-api", "kind": "enum", "gen": ctapi_gen, "run": ctapi_run, "flavour": "asan", "shards": 8,
                "exhaustive": True})
    out.append({"name": "cycles", "kind": "enum", "gen": cycles_gen, "run": cycles_run, "flavour": "plain", "shards": 4,
                "exhaustive": True})
    out.append({"name": "deffault", "kind": "enum", "gen": deffault_gen, "run": deffault_run, "flavour": "plain", "shards": 4,
                "exhaustive": True})
    out.append({"name": "deffault-asan", "kind": "enum", "gen": deffault_gen, "run": deffault_run, "flavour": "asan", "shards": 8,
                "exhaustive": True})
    return out
