"""C05 — TraitList refines list and its change events are faithful normalized deltas.

stage grid : exhaustive (len x int index / slice x mutator), identity validator
stage hist : Hypothesis histories over all mutators, coercing / rejecting /
             k-th-item-rejecting validators, oversized indices
Oracle: builtin list on validated items (result, exception class, untouched on
failure) + replay law + normal form of the event index.
"""
import itertools

from hypothesis import strategies as st

from traits.trait_list_object import TraitList
from traits.trait_errors import TraitError

ID = "C05"
LEVEL = "exploration"
RULE = ("grid: every (length, mutator, int index | slice(start,stop,step), replacement length) in the stated "
        "bounds, each distinct by construction, non-trivial = negative/out-of-range index, step not in (None,1), "
        "empty or single-element selection, or failing op; hist: Hypothesis op histories (<=12 ops) over all "
        "mutators with coercing/rejecting validators, non-trivial = history with a failing op, an extended slice, "
        "an oversized index or a coerced item; distinct by BLAKE2 digest of the case")
ASSUMPTIONS = ["indices are ints (objects with only __index__ and bools are outside the stated domain)",
               "notifier callables do not raise (documented expectation)"]

BOUNDS = {"quick": dict(L=7, idx=9, step=4), "thorough": dict(L=10, idx=12, step=5)}
BIG = 2 ** 70


# ------------------------------------------------------------------ event oracle
def norm_ok(index, old_len):
    if isinstance(index, slice):
        s = index
        return (type(s.start) is int and type(s.stop) is int and type(s.step) is int
                and 0 <= s.start < s.stop <= old_len and s.step >= 2)
    # an int index denotes a position of the pre-operation snapshot: 0 <= index <= old length
    return type(index) is int and 0 <= index <= old_len


def replay(snapshot, index, removed, added):
    """Apply the event to a copy of snapshot; None if the event does not fit it."""
    snap = list(snapshot)
    if isinstance(index, slice):
        if snap[index] != removed:
            return None
        if added:
            try:
                snap[index] = added
            except ValueError:
                return None
        else:
            del snap[index]
    else:
        if snap[index:index + len(removed)] != removed:
            return None
        snap[index:index + len(removed)] = added
    return snap


def same(a, b):
    """Equal lists with equal element types (1 vs True vs 1.0 matter for validated items)."""
    return len(a) == len(b) and all(type(x) is type(y) and (x is y or x == y) for x, y in zip(a, b))


class NeverEqual:
    """An object that is not equal to anything, itself included: a list still finds it by IDENTITY."""

    def __eq__(self, other):
        return False
    __hash__ = object.__hash__

    def __repr__(self):
        return "NeverEqual()"


ODD = [float("nan"), NeverEqual()]


class GenFault(RuntimeError):
    pass


def failing_gen(items):
    for x in items:
        yield x
    raise GenFault("the iterable fails after %d items" % len(items))


def judge_events(before, after, events, ctx, what):
    changed = not same(before, after)
    if changed and len(events) != 1:
        ctx.fail("events/count", "%d events for a content change: %s before=%r after=%r ev=%r"
                 % (len(events), what, before, after, events))
    cur = before
    for (i, r, a) in events:
        if not norm_ok(i, len(cur)):
            ctx.fail("events/normal-form", "index %r not normalized (old len %d): %s" % (i, len(cur), what))
        if isinstance(i, slice) and len(range(*i.indices(len(cur)))) != len(r):
            ctx.fail("events/normal-form", "slice %r does not select exactly the removed items %r: %s" % (i, r, what))
        nxt = replay(cur, i, r, a)
        if nxt is None:
            ctx.fail("events/replay", "event %r does not fit snapshot %r: %s" % ((i, r, a), cur, what))
        cur = nxt
    if not same(cur, after):
        ctx.fail("events/replay", "replaying %r on %r gives %r, contents are %r: %s"
                 % (events, before, cur, after, what))


class IdxObj:
    """An integer-like object: only __index__ (what list accepts wherever it takes an index or a multiplier)."""

    def __init__(self, v):
        self.v = v

    def __index__(self):
        return self.v

    def __repr__(self):
        return "IdxObj(%r)" % (self.v,)


# ------------------------------------------------------------------ op application
def apply_op(lst, op, validate):
    """Apply op to lst (TraitList or list). For a builtin list the items are validated first."""
    name = op[0]
    is_model = type(lst) is list
    v = validate if is_model else (lambda x: x)

    def vs(items):
        return [v(x) for x in items] if is_model else items
    if name == "setitem":
        lst[op[1]] = v(op[2])
    elif name == "delitem":
        del lst[op[1]]
    elif name == "setslice":
        lst[slice(*op[1])] = vs(op[2])
    elif name == "delslice":
        del lst[slice(*op[1])]
    elif name == "setslice_fit":
        # replacement of exactly the size the slice selects (so that extended-slice assignments succeed), built by
        # cycling the given raw items
        n_sel = len(range(*slice(*op[1]).indices(len(lst))))
        raw = op[2] if op[2] else [0]
        lst[slice(*op[1])] = vs([raw[i % len(raw)] for i in range(n_sel)])
    elif name == "setslice_eq":
        # equal-but-not-identical replacement for the selected items (1 -> 1.0): a builtin list holds the new objects
        sel = list(lst)[slice(*op[1])]
        lst[slice(*op[1])] = vs([float(x) if type(x) is int else (int(x) if type(x) is float and x == int(x) else x)
                                 for x in sel])
    elif name == "insert":
        x = v(op[2])
        lst.insert(op[1], x)
    elif name == "pop":
        return lst.pop(op[1])
    elif name == "pop0":
        return lst.pop()
    elif name == "append":
        lst.append(v(op[1]))
    elif name == "extend":
        lst.extend(vs(op[1]))
    elif name == "iadd":
        lst += vs(op[1])
    # the list itself as the argument (the model validates a snapshot of its own items once more)
    elif name == "extend_self":
        lst.extend(vs(list(lst)) if is_model else lst)
    elif name == "iadd_self":
        if is_model:
            lst += vs(list(lst))
        else:
            lst += lst
    elif name == "setslice_self":
        lst[slice(*op[1])] = vs(list(lst)) if is_model else lst
    elif name == "imul":
        lst *= op[1]
    # the same operations with an index-like OBJECT in place of the int
    elif name == "pop_idx":
        return lst.pop(IdxObj(op[1]))
    # pop takes an INDEX, nothing that merely works as a subscript
    elif name == "pop_slice":
        return lst.pop(slice(op[1], op[2]))
    elif name == "pop_other":
        return lst.pop(op[1])
    elif name == "insert_other":
        lst.insert(op[1], v(op[2]))
    elif name == "insert_idx":
        x = v(op[2])
        lst.insert(IdxObj(op[1]), x)
    elif name == "imul_idx":
        lst *= IdxObj(op[1])
    elif name == "setitem_idx":
        lst[IdxObj(op[1])] = v(op[2])
    elif name == "delitem_idx":
        del lst[IdxObj(op[1])]
    elif name == "remove":
        lst.remove(op[1])
    # items that are members only by IDENTITY (x != x): list.remove / index / `in` find them all the same
    elif name == "append_odd":
        lst.append(v(ODD[op[1] % 2]))
    elif name == "remove_odd":
        lst.remove(ODD[op[1] % 2])
    # an iterable that raises AFTER it has handed over some items (not a TraitError): nothing of it may stay
    elif name == "extend_gen_fail":
        # (the model validates each item as the iterable hands it over: whichever fault comes first decides)
        lst.extend([v(x) for x in failing_gen(op[1])] if is_model else failing_gen(op[1]))
    elif name == "iadd_gen_fail":
        if is_model:
            lst += [v(x) for x in failing_gen(op[1])]
        else:
            lst += failing_gen(op[1])
    elif name == "reverse":
        lst.reverse()
    elif name == "sort":
        lst.sort(reverse=op[1])
    elif name == "clear":
        lst.clear()
    else:
        raise AssertionError(name)
    return None


def run_single(L, op, ctx, validate=None, tl=None, model=None, vreset=None, oneshot=False):
    """One op on a fresh (or given) TraitList against the model. Returns new model."""
    if tl is None:
        # the grid runs with the COERCING validator and gives new items as digit strings: what is stored and what the
        # event reports must be the validated ints
        validate = validate or Validator("coerce")
        tl = TraitList(range(L), item_validator=validate)
        model = list(range(L))
    events = []
    tl.notifiers[:] = [lambda t, i, r, a: events.append((i, list(r), list(a)))]
    if oneshot:
        # a notifier AHEAD of the recording one that takes itself off the list when it is called
        def one_shot(t, i, r, a):
            t.notifiers.remove(one_shot)
        tl.notifiers.insert(0, one_shot)
    before = list(tl)
    what = "op=%r" % (op,)
    if vreset:
        vreset()
    try:
        r1 = apply_op(tl, op, None)
        e1 = None
    except Exception as e:
        r1, e1 = None, e
    # model: validation fault and builtin fault are computed separately (the order in which
    # several independent faults of one call are detected is not part of the property)
    if vreset:
        vreset()
    val_exc = None
    try:
        m2 = list(model)
        r2 = apply_op(m2, op, validate)
        e2 = None
    except Exception as e:
        r2, e2, m2 = None, e, list(model)
    allowed = set()
    if e2 is not None:
        allowed.add(type(e2))
        # was it the validator?  then the builtin op on sanitised items may fail differently
        try:
            apply_op(list(model), op, lambda x: 0)
        except Exception as e:
            allowed.add(type(e))
        else:
            val_exc = e2
        # further independent faults of the same call
        if op[0] in ("setslice", "delslice", "setslice_eq", "setslice_fit", "setslice_self") and op[1][2] == 0:
            allowed.add(ValueError)
        if op[0] in ("setslice", "extend", "iadd") and not isinstance(op[-1], list):
            allowed.add(TypeError)
    if e1 is not None or e2 is not None:
        ctx.label("failing-op")
        if e1 is None:
            ctx.fail("refine/exception", "list raises %r, TraitList succeeded: %s before=%r" % (e2, what, before))
        if e2 is None:
            ctx.fail("refine/exception", "TraitList raises %r, list succeeds: %s before=%r" % (e1, what, before))
        if type(e1) not in allowed:
            ctx.fail("refine/exception", "TraitList raises %r, list raises %s: %s before=%r"
                     % (e1, sorted(c.__name__ for c in allowed), what, before))
        if not same(list(tl), before):
            ctx.fail("refine/untouched", "failing op changed contents %r -> %r: %s" % (before, list(tl), what))
        if events:
            ctx.fail("events/on-failure", "failing op notified %r: %s" % (events, what))
        return tl, model
    if not same(list(tl), m2):
        ctx.fail("refine/contents", "TraitList %r, list %r after %s on %r" % (list(tl), m2, what, before))
    if op[0] in ("pop", "pop0") and not (type(r1) is type(r2) and (r1 is r2 or r1 == r2)):
        ctx.fail("refine/result", "pop returned %r, list %r: %s" % (r1, r2, what))
    judge_events(before, list(tl), events, ctx, what + " before=%r" % (before,))
    return tl, m2


# ------------------------------------------------------------------ stage grid
def grid_tasks(tier):
    b = BOUNDS[tier]
    vals = [None] + list(range(-b["idx"], b["idx"] + 1)) + [BIG, -BIG]
    tasks = []
    for L in range(0, b["L"] + 1):
        tasks.append({"L": L, "part": "int"})
        for a in vals:
            tasks.append({"L": L, "part": "slice", "start": a})
    return tasks


def grid_gen(tier, shard, nshards):
    ts = grid_tasks(tier)
    for i, t in enumerate(ts):
        if i % nshards == shard:
            yield dict(t, tier=tier)


def grid_ops(case):
    b = BOUNDS[case.get("tier", "quick")]
    L = case["L"]
    ints = list(range(-b["idx"], b["idx"] + 1)) + [BIG, -BIG]
    vals = [None] + ints
    steps = [None] + [s for k in range(1, b["step"] + 1) for s in (k, -k)] + [BIG, -BIG]
    if case["part"] == "int":
        for i in ints:
            yield ["delitem", i]
            yield ["setitem", i, "99"]
            yield ["pop", i]
            yield ["insert", i, "99"]
        for k in (-1, 0, 1, 2, 3, True, False, 0.5, 0.0, -1.0, 2.5, "5", None):
            yield ["imul", k]
        yield ["reverse"]
        yield ["sort", True]
        yield ["sort", False]
        yield ["clear"]
        yield ["pop0"]
        for x in (0, 1, L - 1, L, 99):
            yield ["remove", x]
        yield ["append", "5"]
        yield ["extend", ["5", 6]]
        yield ["extend", []]
        yield ["iadd", ["7"]]
        yield ["iadd", []]
    else:
        a = case["start"]
        for bb, c in itertools.product(vals, steps):
            yield ["delslice", [a, bb, c]]
            if c != 0:
                yield ["setslice_eq", [a, bb, c]]
            for m in range(0, L + 3):
                yield ["setslice", [a, bb, c], [str(x) for x in range(100, 100 + m)]]


def op_nontrivial(L, op):
    n = op[0]
    if n in ("delitem", "setitem", "pop", "insert"):
        return op[1] < 0 or op[1] >= L
    if n in ("delslice", "setslice", "setslice_eq"):
        a, b, c = op[1]
        sel = len(range(*slice(a, b, c).indices(L)))
        return c not in (None, 1) or sel <= 1
    return n in ("remove", "imul")


def grid_run(case, ctx):
    from vf.core import Violation
    L = case["L"]
    if "op" in case:          # single-op replay
        ctx.begin(case)
        run_single(L, case["op"], ctx)
        return
    n = nt = 0
    for op in grid_ops(case):
        n += 1
        if op_nontrivial(L, op):
            nt += 1
        try:
            run_single(L, op, ctx)
        except Violation as v:
            ctx.report(v.bucket, v.msg, {"L": L, "op": op})
    ctx.add_evals(n)
    ctx.nontrivial_count += nt
    ctx.label("ops:" + case["part"], n)
    if len(ctx.samples) < 3 and case["part"] == "slice" and L >= 3:
        ctx.samples.append({"L": L, "op": ["setslice", [case["start"], None, -2], [100]]})


# ------------------------------------------------------------------ stage hist
class Validator:
    """Item validators; 'kth:n' rejects the n-th item validated within one operation."""

    def __init__(self, kind):
        self.kind = kind
        self.calls = 0

    def reset(self):
        self.calls = 0

    def __call__(self, x):
        self.calls += 1
        k = self.kind
        if k == "ident":
            return x
        if k.startswith("kth:"):
            if self.calls == int(k[4:]):
                raise TraitError("rejecting item #%d" % self.calls)
            return x
        # coerce / reject
        if isinstance(x, str) and x.isdigit():
            x = int(x)
        elif type(x) is bool:
            x = int(x)
        if k == "reject" and isinstance(x, int) and x < 0:
            raise TraitError("negative")
        if k == "reject" and x is None:
            raise TraitError("None")
        return x


ITEM = st.one_of(st.integers(-3, 6), st.sampled_from(["1", "2", "x", True, None, 2.0, -1]))
IDX = st.one_of(st.integers(-9, 9), st.sampled_from([BIG, -BIG, 2 ** 63, -2 ** 63 - 1]))
OPT_IDX = st.one_of(st.none(), IDX)
STEP = st.one_of(st.none(), st.integers(-4, 4), st.sampled_from([BIG, -BIG]))
ITEMS = st.lists(ITEM, max_size=5)
OP = st.one_of(
    st.tuples(st.just("setitem"), IDX, ITEM),
    st.tuples(st.just("delitem"), IDX),
    st.tuples(st.just("setslice"), st.tuples(OPT_IDX, OPT_IDX, STEP), ITEMS),
    st.tuples(st.just("delslice"), st.tuples(OPT_IDX, OPT_IDX, STEP)),
    st.tuples(st.just("setslice_eq"), st.tuples(OPT_IDX, OPT_IDX, STEP.filter(lambda x: x != 0))),
    st.tuples(st.just("setslice_fit"), st.tuples(OPT_IDX, OPT_IDX, st.sampled_from([-1, -2, -3, 2, 3, -1, -2])), ITEMS),
    st.tuples(st.just("setslice_fit"), st.tuples(OPT_IDX, OPT_IDX, st.sampled_from([-1, -2, -3, 2, 3, -1, -2])), ITEMS),
    st.tuples(st.just("insert"), IDX, ITEM),
    st.tuples(st.just("pop"), IDX),
    st.tuples(st.just("pop0")),
    st.tuples(st.just("append"), ITEM),
    st.tuples(st.just("extend"), ITEMS),
    st.tuples(st.just("iadd"), ITEMS),
    st.tuples(st.just("extend_self")), st.tuples(st.just("iadd_self")),
    st.tuples(st.just("pop_idx"), st.integers(-4, 4)), st.tuples(st.just("insert_idx"), st.integers(-4, 4), ITEM),
    st.tuples(st.just("pop_slice"), st.one_of(st.none(), st.integers(-2, 2)), st.one_of(st.none(), st.integers(-2, 3))),
    st.tuples(st.just("pop_other"), st.sampled_from([1.5, "0", None, 0.0, True])),
    st.tuples(st.just("insert_other"), st.sampled_from([1.5, "0", None, True]), ITEM),
    st.tuples(st.just("imul_idx"), st.integers(-1, 2)), st.tuples(st.just("setitem_idx"), st.integers(-4, 4), ITEM),
    st.tuples(st.just("delitem_idx"), st.integers(-4, 4)),
    st.tuples(st.just("setslice_self"), st.tuples(OPT_IDX, OPT_IDX, st.sampled_from([None, None, 1, 2, -1]))),
    st.tuples(st.just("imul"), st.one_of(st.integers(-1, 3), st.sampled_from([0.5, 0.0, -1.0, 2.5, "5", None, True, False]))),
    st.tuples(st.just("remove"), ITEM),
    st.tuples(st.just("append_odd"), st.integers(0, 1)), st.tuples(st.just("remove_odd"), st.integers(0, 1)),
    st.tuples(st.just("remove_odd"), st.integers(0, 1)),
    st.tuples(st.just("extend_gen_fail"), ITEMS), st.tuples(st.just("iadd_gen_fail"), ITEMS),
    st.tuples(st.just("reverse")),
    st.tuples(st.just("sort"), st.booleans()),
    st.tuples(st.just("clear")),
    st.tuples(st.just("setslice"), st.tuples(OPT_IDX, OPT_IDX, STEP), st.sampled_from([None, 5])),
    st.tuples(st.just("extend"), st.sampled_from([None, 5])),
)


def hist_strategy(tier):
    return st.fixed_dictionaries({
        "validator": st.sampled_from(["ident", "coerce", "reject", "kth:1", "kth:2", "kth:3"]),
        "init": st.lists(st.integers(0, 6), max_size=7),
        "oneshot": st.booleans(),
        "ops": st.lists(OP.map(lambda t: [list(x) if isinstance(x, tuple) else x for x in t]), min_size=1, max_size=12),
    })


def hist_run(case, ctx):
    val_impl, val_model = Validator(case["validator"]), Validator(case["validator"])
    tl = TraitList(list(case["init"]), item_validator=Validator("ident"))
    tl.item_validator = val_impl
    model = list(case["init"])

    def reset():
        val_impl.reset()
        val_model.reset()
    interesting = False
    for op in case["ops"]:
        op = list(op)
        if op[0] == "sort":
            # mixed-type contents make sort raise TypeError half-way in both: builtin sort leaves the
            # list in an unspecified order then, which the statement does not cover
            try:
                sorted(model)
            except TypeError:
                continue
        ctx.label("op:" + op[0])
        if op[0] in ("extend_self", "iadd_self", "setslice_self"):
            interesting = True
            ctx.label("self-as-argument")
        if op[0] in ("setslice", "delslice", "setslice_eq", "setslice_fit", "setslice_self"):
            if op[1][2] not in (None, 1):
                interesting = True
                ctx.label("extended-slice")
        flat = []
        for x in op[1:]:
            flat.extend(x if isinstance(x, list) else [x])
        if any(type(x) is int and abs(x) >= 2 ** 62 for x in flat):
            interesting = True
            ctx.label("oversized-index")
        n_fail = ctx.classes.get("failing-op", 0)
        tl, model = run_single(None, op, ctx, validate=val_model, tl=tl, model=model, vreset=reset, oneshot=bool(case.get("oneshot")))
        if ctx.classes.get("failing-op", 0) != n_fail:
            interesting = True
    if case["validator"] != "ident":
        interesting = True
    if interesting:
        ctx.nontrivial()


def stages(tier):
    return [
        {"name": "grid", "kind": "enum", "batch": True, "gen": grid_gen, "run": grid_run,
         "shards": 16, "exhaustive": True},
        {"name": "hist", "kind": "hyp", "strategy": hist_strategy, "run": hist_run,
         "examples": {"quick": 12000, "thorough": 400000}, "shards": 16},
    ]
