"""C14 — pickling, deep copying and cloning preserve state and keep traits live.

stage objects : a state reached by a generated history on an object with nested containers, an Instance
                graph, transient / ReadOnly / copy-metadata traits, an observed Property, an @observe
                method, items handlers and a prototyped attribute; copied by pickle (protocols 0-5),
                deepcopy, clone_traits(copy=None/shallow/deep), copy_traits; round-trip + liveness probes.
stage defs    : every kind of trait definition object (CTrait) through pickle / copy / deepcopy; the
                round-tripped definition must validate, default and (attached with add_trait) get/set
                like the original.  A crash of the worker is a violation (the case is journalled).
"""
import copy
import pickle

from hypothesis import strategies as st

from traits import api as T
from traits.api import (HasTraits, Int, Str, List, Dict, Set, Instance, ReadOnly, Property, cached_property, observe,
                        PrototypedFrom, TraitError, CTrait)
from traits.trait_list_object import TraitList
from traits.trait_dict_object import TraitDict
from traits.trait_set_object import TraitSet

ID = "C14"
LEVEL = "exploration"
RULE = ("objects: Hypothesis (history <=12 ops, copy mode) pairs over 10 copy modes, non-trivial = state with a nested container, "
        "an Instance graph, a prototyped local value or cached properties read by static handlers during the restore; defs: every (definition kind, route) pair of 46 kinds x 3 routes "
        "(exhaustive), non-trivial = the definition is a property, compound, delegate, container or mapped trait; distinct by digest")
ASSUMPTIONS = ["defaults that are fresh per call (Instance with args, UUID) are compared by type/plain value",
               "under clone_traits(copy=None|'shallow') and copy='ref' metadata child HasTraits objects / containers are legitimately shared",
               "a TraitList/Dict/SetObject pickled on its own (without its owner) is documented to come back detached"]

LOG = []


class Leaf(HasTraits):
    n = Int


class Child(HasTraits):
    value = Int
    xs = List(Int)
    # mutable values that the owner M also reaches through DEFERRING attributes (c_leaf, c_anys, p_leaf below)
    leaf = Instance(Leaf)
    anys = List(T.Any)


class Palette(HasTraits):
    shade = Str("black")


class M(HasTraits):
    # declared before the Instance trait holding the prototype, on purpose
    a_shade = PrototypedFrom("z_palette", "shade")
    c_leaf = T.DelegatesTo("child", "leaf")
    c_anys = T.DelegatesTo("child", "anys")
    p_leaf = PrototypedFrom("child", "leaf")
    li = List(Int)
    ll = List(List(Int))
    lll = List(List(List(Int)))
    dl = Dict(Str, List(Int))
    si = Set(Int)
    child = Instance(Child)
    kids = List(Instance(Child))
    dc = Dict(Str, Instance(Child))          # values may be THE SAME objects as child / kids[i] (aliasing inside the graph)
    # containers whose item trait needs the OWNER to decide (This = "an instance of my class")
    peers_s = Set(T.This)
    peers_l = List(T.This)
    peers_d = Dict(Str, T.This)
    tmp = Int(5, transient=True)
    keep = Int(3, transient=False)          # explicitly NOT transient
    ro = ReadOnly
    ident = T.UUID(can_init=True)          # write-once for as long as the object counts as initialised
    ref_list = List(Int, copy="ref")
    sh_list = List(List(Int), copy="shallow")
    total = Property(Int, observe="li.items")
    z_palette = Instance(Palette)
    _tag = Str("orig", transient=True)
    # two cached properties over two traits, READ by the static handlers of those traits (so also while a copy's state
    # is being restored attribute by attribute)
    w = Int
    wz = Int
    both_d = Property(Int, depends_on="w, wz")
    both_o = Property(Int, observe="[w,wz]")

    @cached_property
    def _get_both_d(self):
        return self.w * 100 + self.wz

    @cached_property
    def _get_both_o(self):
        return self.w * 100 + self.wz

    def _w_changed(self):
        self.__dict__["_peek"] = (self.both_d, self.both_o)

    def _wz_changed(self):
        self.__dict__["_peek"] = (self.both_d, self.both_o)

    @cached_property
    def _get_total(self):
        return sum(self.li)

    def _li_items_changed(self, ev):
        LOG.append((self._tag, "li_items"))

    @observe("kids.items.value")
    def _kid(self, e):
        LOG.append((self._tag, "kidvalue"))

    @observe("w", post_init=True)
    def _w_post(self, e):
        LOG.append((self._tag, "wpost"))


I5 = st.integers(0, 5)
OP = st.one_of(
    st.tuples(st.just("li"), st.lists(I5, max_size=3)), st.tuples(st.just("ll"), st.lists(st.lists(I5, max_size=2), max_size=3)),
    st.tuples(st.just("lll"), st.lists(st.lists(st.lists(I5, max_size=2), max_size=2), max_size=2)),
    st.tuples(st.just("dl"), st.sampled_from("ab"), st.lists(I5, max_size=2)), st.tuples(st.just("si"), I5),
    st.tuples(st.just("child"), st.booleans()), st.tuples(st.just("kid"), I5), st.tuples(st.just("tmp"), st.integers(0, 9)),
    st.tuples(st.just("ro"), st.integers(0, 9)), st.tuples(st.just("ref"), st.lists(I5, max_size=3)),
    st.tuples(st.just("sh"), st.lists(st.lists(I5, max_size=2), max_size=2)), st.tuples(st.just("llapp"), I5),
    st.tuples(st.just("palette"), st.sampled_from(["black", "blue"])), st.tuples(st.just("shade"), st.sampled_from(["red", "green"])),
    st.tuples(st.just("w"), st.integers(1, 9)), st.tuples(st.just("wz"), st.integers(1, 9)), st.tuples(st.just("keep"), st.integers(4, 9)),
    st.tuples(st.just("dc"), st.sampled_from("ab"), st.sampled_from(["child", "kid", "fresh"])),
    st.tuples(st.just("dc"), st.sampled_from("ab"), st.sampled_from(["child", "kid", "fresh"])),
    st.tuples(st.just("peers"), st.sampled_from(["s", "l", "d"])), st.tuples(st.just("peers"), st.sampled_from(["s", "l", "d"])),
).map(list)
MODES = ["p0", "p1", "p2", "p3", "p4", "p5", "deepcopy", "clone_deep", "clone_none", "clone_shallow", "copy_traits"]


def objects_strategy(tier):
    # (an integer index keeps the distribution over modes flat; sampled_from favours the first element)
    return st.fixed_dictionaries({"ops": st.lists(OP, max_size=12),
                                  "mode": st.integers(0, 10 * len(MODES) - 1).map(lambda i: MODES[i % len(MODES)])})


def containers(o):
    acc = {}

    def walk(v):
        if isinstance(v, (TraitList, TraitDict, TraitSet)):
            acc[id(v)] = v
            for x in (v.values() if isinstance(v, dict) else v):
                walk(x)
        elif isinstance(v, HasTraits):
            if id(v) in acc:
                return
            acc[id(v)] = v
            for n in v.trait_names():
                if n in v.__dict__:
                    walk(v.__dict__[n])
    walk(o)
    return acc


def plain(v):
    if isinstance(v, list):
        return [plain(x) for x in v]
    if isinstance(v, dict):
        return {k: plain(x) for k, x in v.items()}
    if isinstance(v, set):
        return set(v)
    if isinstance(v, Child):
        return ("Child", v.value, list(v.xs))
    if isinstance(v, Palette):
        return ("Palette", v.shade)
    return v


def must_reject(ctx, what, f, mode):
    try:
        f()
    except TraitError:
        return
    except Exception as e:
        ctx.fail("live/validation-raised", "%s on the %s image raised %r instead of TraitError" % (what, mode, e))
    ctx.fail("live/invalid-accepted", "%s on the %s image was accepted" % (what, mode))


class Volatile(HasTraits):
    """Nothing to persist: every trait is transient (or a property) - the image is still a live object of the class."""
    t = Int(transient=True)
    seen = List(transient=True)
    total = Property(Int, observe="t")
    deps = Property(Int, depends_on="t")

    @cached_property
    def _get_total(self):
        return self.t * 2

    @cached_property
    def _get_deps(self):
        return self.t * 3

    @observe("t")
    def _t_seen(self, event):
        self.seen.append(event.new)

    def _t_changed(self, new):
        self.seen.append(("static", new))


def volatile_check(ctx, mode, t0):
    v = Volatile()
    if t0:
        v.t = t0
        v.total, v.deps
    try:
        if mode.startswith("p"):
            c = pickle.loads(pickle.dumps(v, int(mode[1])))
        elif mode == "deepcopy":
            c = copy.deepcopy(v)
        elif mode == "copy_traits":
            c = copy.copy(v)
        else:
            c = v.clone_traits()
    except Exception as e:
        ctx.fail("copy/raised", "%s of an object without persistent state raised %r" % (mode, e))
    ctx.label("object-without-persistent-state")
    if c.total != c.t * 2 or c.deps != c.t * 3:
        ctx.fail("live/property-dependency", "%s: image of an all-transient object: t=%r total=%r deps=%r" % (mode, c.t, c.total, c.deps))
    del c.seen[:]
    c.t += 7
    if sorted(map(repr, c.seen)) != sorted(map(repr, [c.t, ("static", c.t)])):
        ctx.fail("live/observer", "%s: image of an all-transient object: after t += 7 its declared observer and static handler "
                 "recorded %r (expected one call each)" % (mode, c.seen))
    if c.total != c.t * 2 or c.deps != c.t * 3:
        ctx.fail("live/property-dependency", "%s: image of an all-transient object after a change: t=%r total=%r deps=%r (stale cache)"
                 % (mode, c.t, c.total, c.deps))
    if not c.traits_inited():
        ctx.fail("state/inited", "%s: traits_inited() is False on the image of an all-transient object" % mode)


def objects_run(case, ctx):
    volatile_check(ctx, case["mode"], len(case["ops"]) % 3)
    o = M()
    ro_set = False
    local_shade = None
    interesting = False
    for op in case["ops"]:
        k = op[0]
        if k == "li":
            o.li = op[1]
        elif k == "ll":
            o.ll = op[1]
            interesting = interesting or bool(op[1])
        elif k == "lll":
            o.lll = op[1]
            interesting = interesting or bool(op[1])
        elif k == "dl":
            o.dl[op[1]] = op[2]
            interesting = True
        elif k == "si":
            o.si.add(op[1])
        elif k == "child":
            o.child = Child(value=1, xs=[1], leaf=Leaf(n=3), anys=[[1], [2, 3]]) if op[1] else None
            interesting = interesting or op[1]
        elif k == "kid":
            o.kids.append(Child(value=op[1]))
            interesting = True
        elif k == "tmp":
            o.tmp = op[1]
        elif k == "ro":
            if not ro_set:
                o.ro = op[1]
                ro_set = True
        elif k == "ref":
            o.ref_list = op[1]
        elif k == "sh":
            o.sh_list = op[1]
        elif k == "llapp":
            if o.ll:
                o.ll[0].append(op[1])
        elif k in ("w", "wz"):
            setattr(o, k, op[1])
            interesting = True
        elif k == "keep":
            o.keep = op[1]
            ctx.label("explicitly-non-transient-trait-set")
        elif k == "peers":
            peer = M()
            if op[1] == "s":
                o.peers_s.add(peer)
            elif op[1] == "l":
                o.peers_l.append(peer)
            else:
                o.peers_d["p%d" % len(o.peers_d)] = peer
            interesting = True
        elif k == "dc":
            if op[2] == "child" and o.child is not None:
                o.dc[op[1]] = o.child
            elif op[2] == "kid" and o.kids:
                o.dc[op[1]] = o.kids[-1]
            else:
                o.dc[op[1]] = Child(value=7)
            interesting = True
        elif k == "palette":
            o.z_palette = Palette(shade=op[1])
        elif k == "shade":
            if o.z_palette is not None:
                o.a_shade = op[1]
                local_shade = op[1]
                interesting = True
    mode = case["mode"]
    ctx.label("mode:" + mode)
    try:
        if mode.startswith("p"):
            c = pickle.loads(pickle.dumps(o, int(mode[1])))
        elif mode == "deepcopy":
            c = copy.deepcopy(o)
        elif mode == "clone_deep":
            c = o.clone_traits(copy="deep")
        elif mode == "clone_none":
            c = o.clone_traits()
        elif mode == "clone_shallow":
            c = o.clone_traits(copy="shallow")
        else:
            c = M()
            c.copy_traits(o)
    except Exception as e:
        ctx.fail("copy/raised", "%s raised %r" % (mode, e))
    c._tag = "copy"
    if type(c) is not M:
        ctx.fail("copy/class", "%s gives a %s" % (mode, type(c).__name__))
    # ---- aliasing inside the graph survives a deep copy (one object reachable twice stays ONE object)
    # (copy.deepcopy() honours the per-trait `copy` metadata; Dict has none, which is documented to mean "copy the
    #  reference": its value objects are then the original's own, so only pickle and clone_traits(copy="deep") are judged)
    if mode.startswith("p") or mode == "clone_deep":
        for key, val in o.dc.items():
            where_o = ("child" if val is o.child else None, [i for i, x in enumerate(o.kids) if x is val])
            cv = c.dc.get(key)
            where_c = ("child" if cv is not None and cv is c.child else None, [i for i, x in enumerate(c.kids) if x is cv])
            if where_o != where_c:
                ctx.fail("state/aliasing", "%s: dc[%r] is the same object as %r in the original but as %r in the image"
                         % (mode, key, where_o, where_c))
            if where_o != (None, []):
                ctx.label("aliased-dict-value")
    for pn in ("both_d", "both_o"):
        if getattr(c, pn) != c.w * 100 + c.wz or getattr(c, pn) != getattr(o, pn):
            ctx.fail("live/property-dependency", "%s: cached property %s of the image reads %r; w=%r wz=%r (original reads %r)"
                     % (mode, pn, getattr(c, pn), c.w, c.wz, getattr(o, pn)))
    names = ["li", "ll", "lll", "dl", "si", "kids", "ref_list", "sh_list", "child", "ro", "z_palette", "w", "wz", "dc", "keep"]
    for n in names:
        if plain(getattr(c, n)) != plain(getattr(o, n)):
            ctx.fail("state/value", "%s: %s is %r, original %r" % (mode, n, plain(getattr(c, n)), plain(getattr(o, n))))
    if o.z_palette is not None and c.a_shade != o.a_shade:
        ctx.fail("state/prototyped-value", "%s: prototyped attribute reads %r, original %r (local value %r)"
                 % (mode, c.a_shade, o.a_shade, local_shade))
    for pn in ("peers_s", "peers_l", "peers_d"):
        if len(getattr(c, pn)) != len(getattr(o, pn)):
            ctx.fail("state/value", "%s: %s holds %d item(s), the original %d" % (mode, pn, len(getattr(c, pn)), len(getattr(o, pn))))
    if c.tmp != 5:
        ctx.fail("state/transient", "%s: transient trait is %r, default is 5" % (mode, c.tmp))
    # ---- no shared mutable containers
    oc = {i: v for i, v in containers(o).items() if isinstance(v, (TraitList, TraitDict, TraitSet))}
    cc = {i: v for i, v in containers(c).items() if isinstance(v, (TraitList, TraitDict, TraitSet))}
    shared = set(oc) & set(cc)
    allowed_shared = set()
    # copy='ref' metadata and (for non-deep clones) containers of shared child objects are legitimately shared
    if mode in ("clone_deep", "clone_none", "clone_shallow", "copy_traits", "deepcopy"):
        allowed_shared.add(id(o.ref_list))
    if mode in ("clone_none", "clone_shallow", "copy_traits"):
        for ch in ([o.child] if o.child is not None else []) + list(o.kids):
            allowed_shared.add(id(ch.xs))
            allowed_shared.add(id(ch.anys))
    if mode in ("clone_none", "clone_shallow", "copy_traits", "deepcopy"):
        for ch in o.dc.values():
            allowed_shared.add(id(ch.xs))         # Dict values are copied by reference unless a deep copy is asked for
            allowed_shared.add(id(ch.anys))
        if mode in ("clone_shallow",) or True:
            for inner in o.sh_list:
                allowed_shared.add(id(inner))
    if mode == "clone_shallow":
        for cont in (o.ll, o.lll, o.dl):
            for inner in (cont.values() if isinstance(cont, dict) else cont):
                allowed_shared.add(id(inner))
                if isinstance(inner, list):
                    for i2 in inner:
                        if isinstance(i2, list):
                            allowed_shared.add(id(i2))
    bad = shared - allowed_shared
    if bad:
        ctx.fail("state/shared-container", "%s: containers shared with the original: %r"
                 % (mode, [type(oc[i]).__name__ + repr(oc[i]) for i in bad]))
    # ---- liveness
    must_reject(ctx, "li.append('x')", lambda: c.li.append("x"), mode)
    must_reject(ctx, "si.add('x')", lambda: c.si.add("x"), mode)
    must_reject(ctx, "li = ['x']", lambda: setattr(c, "li", ["x"]), mode)
    if mode != "clone_shallow":
        for inner in c.ll:
            must_reject(ctx, "ll[i].append('x')", lambda: inner.append("x"), mode)
        for mid in c.lll:
            must_reject(ctx, "lll[i].append('x')", lambda: mid.append("x"), mode)
            for inner in mid:
                must_reject(ctx, "lll[i][j].append('x')", lambda: inner.append("x"), mode)
        for inner in c.dl.values():
            must_reject(ctx, "dl[k].append('x')", lambda: inner.append("x"), mode)
    must_reject(ctx, "dl['k'] = ['x']", lambda: c.dl.__setitem__("k", ["x"]), mode)
    must_reject(ctx, "ll.append(['x'])", lambda: c.ll.append(["x"]), mode)
    if c.child is not None:
        if mode not in ("clone_none", "clone_shallow", "copy_traits") and c.child is o.child:
            ctx.fail("state/shared-child", "%s: Instance child shared with the original" % mode)
        must_reject(ctx, "child.xs.append('x')", lambda: c.child.xs.append("x"), mode)
        # what the owner also reaches through its deferring attributes must be copied like everything else below `child`
        if mode not in ("clone_none", "clone_shallow", "copy_traits") and o.child.leaf is not None:
            ctx.label("deferred-mutable-values")
            if c.child.leaf is o.child.leaf or c.c_leaf is o.child.leaf or c.p_leaf is o.child.leaf:
                ctx.fail("state/shared-child", "%s: the Leaf below child (also reached through c_leaf / p_leaf) is shared with the "
                         "original" % mode)
            if c.c_leaf is not c.child.leaf:
                ctx.fail("state/value", "%s: c_leaf of the image is not the image's own child.leaf" % mode)
            for i, inner in enumerate(o.child.anys):
                if i < len(c.child.anys) and c.child.anys[i] is inner:
                    ctx.fail("state/shared-container", "%s: the list child.anys[%d] (also reached through c_anys) is shared with the "
                             "original" % (mode, i))
            if [list(x) for x in c.child.anys] != [list(x) for x in o.child.anys] or c.child.leaf.n != o.child.leaf.n:
                ctx.fail("state/value", "%s: child.anys / child.leaf.n differ: %r / %r" % (mode, c.child.anys, o.child.anys))
    del LOG[:]
    before = list(o.li)
    c.li.append(3)
    if ("copy", "li_items") not in LOG:
        ctx.fail("live/items-handler", "%s: mutating the copy's list did not call its _li_items_changed (log %r)" % (mode, LOG))
    if ("orig", "li_items") in LOG:
        ctx.fail("live/original-notified", "%s: mutating the copy notified the original" % mode)
    if list(o.li) != before:
        ctx.fail("state/shared-container", "%s: mutating the copy's list changed the original" % mode)
    if c.total != sum(c.li):
        ctx.fail("live/property-dependency", "%s: observed property reads %r, expected %r" % (mode, c.total, sum(c.li)))
    if c.kids and mode not in ("clone_none", "clone_shallow", "copy_traits"):
        del LOG[:]
        c.kids[0].value += 1
        if ("copy", "kidvalue") not in LOG:
            ctx.fail("live/observer", "%s: declared observer of the copy did not fire (log %r)" % (mode, LOG))
        if ("orig", "kidvalue") in LOG:
            ctx.fail("live/original-notified", "%s: changing the copy's child notified the original's observer" % mode)
    del LOG[:]
    c.kids.append(Child(value=1))
    c.kids[-1].value = 7
    if ("copy", "kidvalue") not in LOG:
        ctx.fail("live/observer", "%s: declared observer does not follow items added to the copy (log %r)" % (mode, LOG))
    del LOG[:]
    c.w += 1
    if ("copy", "wpost") not in LOG:
        ctx.fail("live/observer", "%s: the observer declared with post_init=True does not fire on the image (log %r)" % (mode, LOG))
    if ("orig", "wpost") in LOG:
        ctx.fail("live/original-notified", "%s: changing the image notified the original's post_init observer" % mode)
    c.wz += 1
    for pn in ("both_d", "both_o"):
        if getattr(c, pn) != c.w * 100 + c.wz:
            ctx.fail("live/property-dependency", "%s: after changing wz on the image its cached property %s reads %r; w=%r wz=%r"
                     % (mode, pn, getattr(c, pn), c.w, c.wz))
    # the image is an INITIALISED object like its original, and its identifier is as write-once as the original's
    if not c.traits_inited():
        ctx.fail("state/inited", "%s: traits_inited() is False on the image (True on the original)" % mode)
    import uuid as _uuid
    must_reject(ctx, "assignment of the write-once identifier (UUID(can_init=True))", lambda: setattr(c, "ident", _uuid.uuid4()), mode)
    if ro_set:
        must_reject(ctx, "second assignment of the write-once attribute", lambda: setattr(c, "ro", 99), mode)
    else:
        # never written on the original: still unwritten on the image (the library's own `Undefined`, not a look-alike),
        # and its ONE defining assignment is still accepted there
        from traits.trait_base import Undefined as _U
        if c.ro is not _U:
            ctx.fail("state/value", "%s: the never-written write-once attribute reads %r (%s) on the image, not Undefined itself"
                     % (mode, c.ro, type(c.ro).__name__))
        try:
            c.ro = 5
        except Exception as e:
            ctx.fail("live/write-once-refused", "%s: the image refuses the FIRST assignment of its never-written write-once "
                     "attribute: %r" % (mode, e))
        must_reject(ctx, "second assignment of the write-once attribute", lambda: setattr(c, "ro", 99), mode)
    if interesting:
        ctx.nontrivial()


# ----------------------------------------------------------------------------- stage defs
class Foo(HasTraits):
    pass


def getp(self):
    return 1


def setp(self, v):
    pass


class WithProp(HasTraits):
    p = Property(Int)
    _p = Int(2)

    def _get_p(self):
        return self._p

    def _set_p(self, v):
        self._p = v


CFG = {
    # definitions made directly from the C type: they have NO metadata dictionary at all
    "RawCTrait": lambda: CTrait(0), "RawEvent": lambda: CTrait(4),
    "Int": lambda: T.Int(3), "Float": lambda: T.Float(), "Str": lambda: T.Str("a"), "Range": lambda: T.Range(0.0, 1.0),
    "RangeInt": lambda: T.Range(0, 5), "Enum": lambda: T.Enum(1, 2, 3), "Tuple": lambda: T.Tuple(T.Int, T.Str),
    "List": lambda: T.List(T.Int, [1]), "Dict": lambda: T.Dict(T.Str, T.Int), "Set": lambda: T.Set(T.Int),
    "Instance": lambda: T.Instance(Foo), "InstanceArgs": lambda: T.Instance(Foo, ()), "Either": lambda: T.Either(T.Int, T.Str),
    "Union": lambda: T.Union(T.Int, T.Str), "Event": lambda: T.Event(T.Int), "Any": lambda: T.Any(), "Map": lambda: T.Map({"a": 1}),
    "PrefixList": lambda: T.PrefixList(["yes", "no"]), "PrefixMap": lambda: T.PrefixMap({"yes": 1, "no": 0}),
    "ReadOnly": lambda: T.ReadOnly, "Constant": lambda: T.Constant(4),
    "Disallow": lambda: T.Disallow, "Python": lambda: T.Python(), "Delegate": lambda: T.DelegatesTo("d"),
    "Proto": lambda: T.PrototypedFrom("d", "x"), "PropPlain": lambda: T.Property(getp, setp),
    "PropValidated": lambda: T.Property(getp, setp, trait=T.Int), "PropType": lambda: WithProp.class_traits()["p"],
    "Callable": lambda: T.Callable(), "This": lambda: T.This(), "String": lambda: T.String("ab", minlen=1, maxlen=3),
    "Trait": lambda: T.Trait(1, 2, "a"), "TraitNoneFoo": lambda: T.Trait(None, Foo), "CInt": lambda: T.CInt(), "Bool": lambda: T.Bool(),
    "Date": lambda: T.Date(), "UUID": lambda: T.UUID(), "Supports": lambda: T.Supports(Foo), "Type": lambda: T.Type(Foo),
    "WeakRef": lambda: T.WeakRef(Foo), "Button": lambda: T.Button(), "DynRange": lambda: T.Range("lo", "hi"),
    "DynEnum": lambda: T.Enum(values="vals"), "Expression": lambda: T.Expression(), "ListList": lambda: T.List(T.List(T.Int)),
    "EitherMap": lambda: T.Either(T.Map({"yes": 1}), T.Int),
    "AnyCmpNone": lambda: T.Any(comparison_mode=T.ComparisonMode.none), "IntCmpIdentity": lambda: T.Int(comparison_mode=T.ComparisonMode.identity),
    "ListCmpNone": lambda: T.List(T.Int, comparison_mode=T.ComparisonMode.none), "ReadOnly5": lambda: T.ReadOnly(5),
}
NONTRIVIAL_DEFS = {"Delegate", "Proto", "PropPlain", "PropValidated", "PropType", "Either", "Union", "Trait", "TraitNoneFoo", "Map",
                   "PrefixMap", "List", "Dict", "Set", "ListList", "WeakRef", "DynRange", "DynEnum", "EitherMap", "Tuple", "Supports"}
VALS = [0, 1, 3, 7, 0.5, 2.0, "a", "abc", "yes", "y", None, (1, "a"), [1], {"a": 1}, {1}, len, True]
ROUTES = ["pickle", "deepcopy", "copy"]


def outcome(f):
    try:
        return ("ok", repr(f()))
    except TraitError:
        return ("TE",)
    except Exception as e:
        return ("EXC", type(e).__name__)


def defs_gen(tier, shard, nshards):
    n = 0
    for name in CFG:
        for how in ROUTES:
            if n % nshards == shard:
                yield {"kind": name, "route": how}
            n += 1


class Holder(HasTraits):
    lo = Int(0)
    hi = Int(5)
    vals = List([1, 2])


def defs_run(case, ctx):
    name, how = case["kind"], case["route"]
    t = CFG[name]()
    ct = t.as_ctrait() if not isinstance(t, CTrait) else t
    if name in NONTRIVIAL_DEFS:
        ctx.nontrivial()
    try:
        if how == "pickle":
            c2 = pickle.loads(pickle.dumps(ct))
        elif how == "deepcopy":
            c2 = copy.deepcopy(ct)
        else:
            c2 = copy.copy(ct)
    except Exception as e:
        sig = ""
        if isinstance(e, pickle.PicklingError) and ("trait_types.ReadOnly" in str(e) or "trait_types.Disallow" in str(e)):
            sig = "/singleton-instance-name"
        elif isinstance(e, TypeError) and "code object" in str(e):
            sig = "/dynamic-code-object"
        ctx.fail("definition/%s-raised%s" % (how, sig), "%s of the %s definition raised %r" % (how, name, e))
    o = Holder()
    vals = VALS + [Foo()]
    for v in vals:
        a = outcome(lambda: ct.validate(o, "x", v))
        b = outcome(lambda: c2.validate(o, "x", v))
        if a != b and " at 0x" not in str(a) + str(b):
            ctx.fail("definition/validate-differs", "%s via %s: validate(%r) gives %r, original %r" % (name, how, v, b, a))
    d1, d2 = repr(ct.default_value()), repr(c2.default_value())
    if d1 != d2 and " at 0x" not in d1:
        ctx.fail("definition/default-differs", "%s via %s: default %s, original %s" % (name, how, d2, d1))
    # metadata: an undefined name reads the same on both, and the image takes new metadata like the original
    a, b = outcome(lambda: ct.no_such_metadata_), outcome(lambda: c2.no_such_metadata_)
    if a != b:
        ctx.fail("definition/metadata-differs", "%s via %s: reading undefined metadata gives %r, original %r" % (name, how, b, a))
    a = outcome(lambda: (setattr(ct, "note_", 3), ct.note_)[1])
    b = outcome(lambda: (setattr(c2, "note_", 3), c2.note_)[1])
    if a != b:
        ctx.fail("definition/metadata-differs", "%s via %s: setting metadata gives %r, original %r" % (name, how, b, a))
    for attr in ("type", "is_property", "comparison_mode", "is_mapped", "modify_delegate"):
        if getattr(ct, attr) != getattr(c2, attr):
            ctx.fail("definition/attribute-differs", "%s via %s: %s is %r, original %r" % (name, how, attr, getattr(c2, attr), getattr(ct, attr)))
    if ct.type in ("trait", "property", "event"):
        o1, o2 = Holder(), Holder()
        o1.add_trait("q", ct)
        o2.add_trait("q", c2)
        for v in vals[:9]:
            a = outcome(lambda: setattr(o1, "q", v))
            b = outcome(lambda: setattr(o2, "q", v))
            if a != b:
                ctx.fail("definition/set-differs", "%s via %s: assigning %r gives %r, original %r" % (name, how, v, b, a))
            if ct.type != "event":
                a = outcome(lambda: getattr(o1, "q"))
                b = outcome(lambda: getattr(o2, "q"))
                if a != b and " at 0x" not in str(a) + str(b) and name != "UUID":
                    ctx.fail("definition/get-differs", "%s via %s: after assigning %r reads %r, original %r" % (name, how, v, b, a))
            if getattr(ct, "is_mapped", False):
                a = outcome(lambda: getattr(o1, "q_"))
                b = outcome(lambda: getattr(o2, "q_"))
                if a != b and " at 0x" not in str(a) + str(b):
                    ctx.fail("definition/get-differs", "%s via %s: shadow reads %r, original %r" % (name, how, b, a))
        # the access POLICY (write-once, constant, ...) survives too: delete, then assign twice more
        a = [outcome(lambda: delattr(o1, "q")), outcome(lambda: setattr(o1, "q", vals[0])), outcome(lambda: setattr(o1, "q", vals[1]))]
        b = [outcome(lambda: delattr(o2, "q")), outcome(lambda: setattr(o2, "q", vals[0])), outcome(lambda: setattr(o2, "q", vals[1]))]
        if a != b:
            ctx.fail("definition/set-differs", "%s via %s: delete / assign / assign gives %r, original %r" % (name, how, b, a))


# ----------------------------------------------------------------------------- stage objkinds
OBJ_ROUTES = ["p2", "p5", "deepcopy", "clone_deep", "clone_none", "copy"]
OBJ_STATES = ["fresh", "read", "assigned"]
OBJ_VALUES = {"Int": 9, "Float": 2.5, "Str": "zz", "Range": 0.25, "RangeInt": 4, "Enum": 2, "Tuple": (4, "q"), "List": [4, 5],
              "Dict": {"k": 1}, "Set": {4}, "Either": "w", "Union": "w", "Any": (1, 2), "Map": "a", "PrefixList": "no",
              "PrefixMap": "no", "ReadOnly": 6, "Python": 8, "PropPlain": 3, "PropValidated": 3, "Callable": len, "String": "ab",
              "Trait": "a", "CInt": "12", "Bool": True, "DynRange": 3, "DynEnum": 2, "Expression": "1+2", "ListList": [[1], [2]],
              "EitherMap": 5, "AnyCmpNone": [1], "IntCmpIdentity": 4, "ListCmpNone": [3]}
OBJ_CLASSES = {}


def _objkind_class(name):
    # (module-level classes, so that pickle can find them by reference)
    if name not in OBJ_CLASSES:
        ns = {"x": CFG[name](), "lo": Int(0), "hi": Int(5), "vals": List([1, 2]), "d": Instance(HasTraits), "other": Int(1),
              "__module__": __name__, "__qualname__": "OK_" + name}
        cls = type("OK_" + name, (HasTraits,), ns)
        globals()["OK_" + name] = cls
        OBJ_CLASSES[name] = cls
    return OBJ_CLASSES[name]


def objkinds_gen(tier, shard, nshards):
    n = 0
    for name in CFG:
        if name in ("PropType", "Delegate", "Proto"):
            continue
        for state in OBJ_STATES:
            for how in OBJ_ROUTES:
                if n % nshards == shard:
                    yield {"kind": name, "state": state, "route": how}
                n += 1


def objkinds_run(case, ctx):
    """An object whose single interesting attribute is of the given kind, in the given state, through the given copy
    route: the copy exists, holds equal state and governs its attribute like the original."""
    name, state, how = case["kind"], case["state"], case["route"]
    cls = _objkind_class(name)
    o = cls(other=2)
    ctx.nontrivial()
    if state == "read":
        try:
            o.x
        except Exception:
            pass
    elif state == "assigned":
        if name not in OBJ_VALUES:
            return
        try:
            o.x = OBJ_VALUES[name]
        except Exception:
            return
    sig = "/" + name if name in ("UUID", "ReadOnly5") else ""
    if not sig:
        # the object's own current value (its library-given default) is not acceptable to its own trait: Date() / Time() /
        # Datetime() and Either(...) default to None without accepting None.  Restoring state goes through validation (F47)
        try:
            cls.__class_traits__["x"].validate(o, "x", getattr(o, "x"))
        except TraitError:
            sig = "/default-outside-domain"
        except Exception:
            pass
    try:
        if how.startswith("p"):
            c = pickle.loads(pickle.dumps(o, int(how[1])))
        elif how == "deepcopy":
            c = copy.deepcopy(o)
        elif how == "copy":
            c = copy.copy(o)
        else:
            c = o.clone_traits(copy="deep" if how == "clone_deep" else None)
    except Exception as e:
        if isinstance(e, TypeError) and "code object" in str(e):
            sig = "/dynamic-code-object"
        ctx.fail("object/%s-raised%s" % ("pickle" if how.startswith("p") else how, sig),
                 "%s of an object with x = %s (state %s) raised %r" % (how, name, state, e))
    if type(c) is not cls:
        ctx.fail("copy/class", "%s gives a %s" % (how, type(c).__name__))
    if c.other != 2:
        ctx.fail("state/value", "%s: other attribute is %r" % (how, c.other))
    a = outcome(lambda: getattr(o, "x"))
    b = outcome(lambda: getattr(c, "x"))
    if a != b and " at 0x" not in str(a) + str(b) and not (name == "UUID" and not how.startswith("p") and how != "copy"):
        ctx.fail("state/value", "%s: x (%s, state %s) reads %r on the image, %r on the original" % (how, name, state, b, a))
    for v in VALS[:10]:
        a = outcome(lambda: (setattr(o, "x", v), getattr(o, "x"))[1]) if False else outcome(lambda: cls.__class_traits__["x"].validate(o, "x", v))
        b = outcome(lambda: type(c).__class_traits__["x"].validate(c, "x", v))
        if a != b and " at 0x" not in str(a) + str(b):
            ctx.fail("live/validate-differs", "%s: validate(%r) on the image gives %r, original %r (%s)" % (how, v, b, a, name))


# ----------------------------------------------------------------------------- stage defgrid
def defgrid_gen(tier, shard, nshards):
    """Every configuration of the C01/C03 lattice (and, for the trait types outside it, of the C01 extras) as a trait
    DEFINITION, through every copy route."""
    from vf import lattice as L
    n = 0
    for spec in L.grid():
        if spec == ["None"]:
            continue
        for how in ROUTES:
            if n % nshards == shard:
                yield {"spec": spec, "route": how}
            n += 1


def defgrid_run(case, ctx):
    from vf import lattice as L
    from vf import values as Vv
    spec, how = case["spec"], case["route"]
    t = L.build(spec)
    ct = t.as_ctrait()
    try:
        if how == "pickle":
            c2 = pickle.loads(pickle.dumps(ct))
        elif how == "deepcopy":
            c2 = copy.deepcopy(ct)
        else:
            c2 = copy.copy(ct)
    except Exception as e:
        sig = "/module-type" if isinstance(e, pickle.PicklingError) and "<class 'module'>" in str(e) else ""
        ctx.fail("definition/%s-raised%s" % (how, sig), "%s of the definition %s raised %r" % (how, L.spec_id(spec), e))
    o = Holder()
    n_diff = 0
    ctx.evaluations -= 1
    for enc, _ in L.all_values():
        v = Vv.dec(enc)
        if L.hazardous(spec, v):
            continue
        ctx.add_evals(1)
        a = outcome(lambda: ct.validate(o, "x", v))
        b = outcome(lambda: c2.validate(o, "x", v))
        if a[0] == "ok":
            n_diff += 1
        if a != b and " at 0x" not in str(a) + str(b):
            ctx.fail("definition/validate-differs", "%s via %s: validate(%s) gives %r, the original definition gives %r"
                     % (L.spec_id(spec), how, enc, b, a))
    ctx.nontrivial(key=[spec, how], sample={"spec": spec, "route": how})
    d1, d2 = repr(ct.default_value()), repr(c2.default_value())
    if d1 != d2 and " at 0x" not in d1:
        ctx.fail("definition/default-differs", "%s via %s: default %s, original %s" % (L.spec_id(spec), how, d2, d1))
    for attr in ("type", "is_property", "comparison_mode", "is_mapped", "modify_delegate"):
        if getattr(ct, attr) != getattr(c2, attr):
            ctx.fail("definition/attribute-differs", "%s via %s: %s is %r, original %r"
                     % (L.spec_id(spec), how, attr, getattr(c2, attr), getattr(ct, attr)))
    # and attached to an object: the image governs assignments like the original
    o1, o2 = Holder(), Holder()
    o1.add_trait("q", ct)
    o2.add_trait("q", c2)
    for enc, _ in L.all_values()[::3]:
        v = Vv.dec(enc)
        if L.hazardous(spec, v):
            continue
        a = outcome(lambda: (setattr(o1, "q", v), getattr(o1, "q"))[1])
        b = outcome(lambda: (setattr(o2, "q", v), getattr(o2, "q"))[1])
        if a != b and " at 0x" not in str(a) + str(b):
            ctx.fail("definition/set-differs", "%s via %s: assigning %s gives %r, original %r" % (L.spec_id(spec), how, enc, b, a))


def stages(tier):
    return [
        {"name": "objects", "kind": "hyp", "strategy": objects_strategy, "run": objects_run,
         "examples": {"quick": 10000, "thorough": 250000}, "shards": 16},
        {"name": "defs", "kind": "enum", "gen": defs_gen, "run": defs_run, "shards": 16, "exhaustive": True},
        {"name": "objkinds", "kind": "enum", "gen": objkinds_gen, "run": objkinds_run, "shards": 16, "exhaustive": True},
        {"name": "defgrid", "kind": "enum", "gen": defgrid_gen, "run": defgrid_run, "shards": 16, "exhaustive": True},
    ]
