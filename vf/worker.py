"""Worker process: runs one (stage, shard) of a property, or replays one case.

Always started by vf/runner.py with PYTHONPATH=<overlay>:<verif root>, so that
`import traits` resolves to the overlay built from the repository's working tree.
"""
import argparse
import gc
import importlib
import json
import math
import os
import signal
import sys
import time

from vf.core import (Ctx, Violation, HarnessError, StopStage, WatchdogTimeout,
                     digest, tb_in_package, short_tb)

WATCHDOG_S = 10
STOP_MARKER = [None]      # path of a file whose existence tells every shard of this stage to stop (set in main)


def _check_overlay():
    ov = os.environ.get("VERIF_OVERLAY")
    import traits
    import traits.ctraits as ct
    if ov:
        for f in (traits.__file__, ct.__file__):
            if not os.path.abspath(f).startswith(os.path.abspath(ov)):
                raise HarnessError("traits imported from %s, not from overlay %s" % (f, ov))


def _alarm(signum, frame):
    raise WatchdogTimeout()


class Journal:
    def __init__(self, path):
        self.fd = os.open(path, os.O_WRONLY | os.O_CREAT | os.O_TRUNC) if path else None

    def write(self, stage, case):
        if self.fd is None:
            return
        try:
            data = json.dumps({"stage": stage, "case": case}, default=repr).encode("utf-8", "surrogatepass")
        except Exception:
            return
        os.ftruncate(self.fd, 0)
        os.pwrite(self.fd, data, 0)


def _quiet_logs():
    import logging
    logging.disable(logging.CRITICAL)


def classify_unexpected(exc):
    """An exception escaping run(): violation if traits code is on the stack, else harness error."""
    if tb_in_package(exc, os.sep + "traits" + os.sep):
        tb = exc.__traceback__
        where = "?"
        while tb is not None:
            fn = tb.tb_frame.f_code.co_filename
            if os.sep + "traits" + os.sep in fn:
                where = os.path.basename(fn) + ":" + tb.tb_frame.f_code.co_name
            tb = tb.tb_next
        return Violation("unexpected/%s@%s" % (type(exc).__name__, where), short_tb(exc))
    return None


def run_one(stage, case, ctx, journal=None):
    """Run a single case with watchdog; returns None or a Violation (not raised)."""
    if STOP_MARKER[0] and os.path.exists(STOP_MARKER[0]):
        raise StopStage()          # another shard hit the watchdog: the remaining cases would mostly crawl or hang too
    if journal is not None:
        journal.write(stage["name"], case)
    ctx.begin(case)
    signal.setitimer(signal.ITIMER_PROF, stage.get("watchdog_s", WATCHDOG_S))
    try:
        stage["run"](case, ctx)
        return None
    except Violation as v:
        return v
    except WatchdogTimeout:
        if STOP_MARKER[0]:
            try:
                open(STOP_MARKER[0], "w").close()
            except OSError:
                pass
        return Violation("timeout/watchdog", "case did not finish within %d s" % stage.get("watchdog_s", WATCHDOG_S))
    except RecursionError as e:
        return Violation("unexpected/RecursionError", short_tb(e))
    except MemoryError as e:
        if STOP_MARKER[0]:
            try:
                open(STOP_MARKER[0], "w").close()
            except OSError:
                pass
        return Violation("timeout/memory", "the case exhausted the worker's memory limit (run-away computation)")
    except Exception as e:
        v = classify_unexpected(e)
        if v is None:
            raise HarnessError("harness exception in stage %s: %s\ncase=%r" % (stage["name"], short_tb(e), case))
        return v
    finally:
        signal.setitimer(signal.ITIMER_PROF, 0)


def run_hyp_stage(stage, tier, shard, nshards, seed, ctx, journal, shrink_limit):
    import hypothesis
    from hypothesis import given, settings, HealthCheck, Phase
    strategy = stage["strategy"](tier)
    n = max(1, math.ceil(stage["examples"][tier] / nshards))
    ignored = set()
    for rnd in range(3):
        st = {"target": None, "t0": None, "fail": {}, "last": None, "hard": None}

        def body(case):
            v = run_one(stage, case, ctx, journal)
            if v is None:
                return
            if v.bucket in ctx.active_known:
                ctx.known_hits[v.bucket] += 1
                return
            if v.bucket in ignored:
                return
            if v.bucket.startswith("timeout/"):
                ctx.report(v.bucket, v.msg, case)
                raise StopStage()
            if st["target"] is None:
                st["target"] = v.bucket
                st["t0"] = time.time()
            if v.bucket != st["target"]:
                return
            d = digest(case)
            if time.time() - st["t0"] > shrink_limit and d not in st["fail"]:
                return
            st["fail"][d] = 1
            st["last"] = (case, v)
            raise v

        test = given(strategy)(body)
        test = settings(max_examples=n, deadline=None, database=None, derandomize=False,
                        report_multiple_bugs=False, print_blob=False,
                        suppress_health_check=[HealthCheck.too_slow, HealthCheck.data_too_large,
                                               HealthCheck.large_base_example],
                        phases=[Phase.generate, Phase.shrink])(test)
        test = hypothesis.seed(seed * 1000 + shard + rnd * 7919)(test)
        try:
            test()
        except Violation:
            case, v = st["last"]
            ctx.report(v.bucket, v.msg, case)
            ignored.add(v.bucket)
            continue
        except StopStage:
            break
        except hypothesis.errors.FailedHealthCheck as e:
            raise HarnessError("health check: %s" % e)
        except hypothesis.errors.Flaky as e:
            if st["last"] is not None:
                case, v = st["last"]
                ctx.report(v.bucket, "(flaky under shrinking) " + v.msg, case)
                ignored.add(v.bucket)
                continue
            raise HarnessError("flaky: %s" % e)
        break


def run_enum_stage(stage, tier, shard, nshards, ctx, journal):
    batch = stage.get("batch", False)
    for case in stage["gen"](tier, shard, nshards):
        if batch:
            ctx.case = case
            signal.setitimer(signal.ITIMER_PROF, WATCHDOG_S * 30)
            try:
                stage["run"](case, ctx)
            except WatchdogTimeout:
                ctx.report("timeout/watchdog", "batch did not finish", case)
            finally:
                signal.setitimer(signal.ITIMER_PROF, 0)
            continue
        v = run_one(stage, case, ctx, journal)
        if v is not None:
            ctx.report(v.bucket, v.msg, case)


def run_fuzz_stage(stage, tier, shard, nshards, seed, ctx, out_path, scratch_dir, journal=None):
    """Coverage-guided campaign (atheris/libFuzzer) with the semantic oracle inside the target.
    stage: target(data: bytes, ctx) raising Violation; runs{tier}; seeds: list of bytes; instrument: list of package names."""
    import atheris
    runs = max(1, stage["runs"][tier] // nshards)
    target = stage.get("target")
    last = {"case": None}
    if target is None:
        # structured fuzzing: libFuzzer mutates the byte stream that drives the Hypothesis strategy of the stage
        from hypothesis import given, settings, HealthCheck
        run = stage["run"]

        def body(case):
            last["case"] = case
            if journal is not None:
                journal.write(stage["name"], case)
            ctx.begin(case)            # one evaluation = one program actually executed (not one libFuzzer input)
            run(case, ctx)
        hyp = settings(deadline=None, database=None, suppress_health_check=list(HealthCheck))(given(stage["strategy"](tier))(body))
        fz = hyp.hypothesis.fuzz_one_input

        def target(data, ctx_):
            last["case"] = None
            fz(bytes(data))
    corpus = os.path.join(scratch_dir, "corpus-%s-%d" % (stage["name"], shard))
    os.makedirs(corpus, exist_ok=True)
    seeds = stage.get("seeds", []) if shard % 2 == 0 else []      # odd shards start from an empty corpus
    for i, b in enumerate(seeds):
        with open(os.path.join(corpus, "seed%03d" % i), "wb") as f:
            f.write(b)
    total = runs + len(seeds)
    t0 = time.time()

    def flush(final=False):
        out = {"harness_error": None}
        out.update(ctx.result())
        out["wall_s"] = time.time() - t0
        tmp = out_path + ".tmp"
        with open(tmp, "w") as f:
            json.dump(out, f, default=repr)
        os.replace(tmp, out_path)

    execs = {"n": 0}
    structured = stage.get("target") is None

    def one(data):
        execs["n"] += 1
        if structured:
            ctx.classes["libfuzzer-inputs"] += 1
        else:
            ctx.evaluations += 1
        ctx.case = None
        try:
            target(data, ctx)
        except Violation as v:
            if v.bucket in ctx.active_known:
                ctx.known_hits[v.bucket] += 1
            else:
                ctx.report(v.bucket, v.msg, last["case"] if last["case"] is not None else {"bytes_hex": bytes(data).hex()})
                flush()
                os._exit(0)
        except Exception as e:
            v = classify_unexpected(e)
            if v is None:
                with open(out_path, "w") as f:
                    json.dump({"harness_error": "fuzz target: " + short_tb(e)}, f)
                os._exit(2)
            ctx.report(v.bucket, v.msg, last["case"] if last["case"] is not None else {"bytes_hex": bytes(data).hex()})
            flush()
            os._exit(0)
        if journal is not None and last["case"] is not None:
            pass
        if execs["n"] % 2000 == 0 or execs["n"] >= total:
            flush()

    argv = [sys.argv[0], corpus, "-runs=%d" % runs, "-seed=%d" % (seed * 1000 + shard + 1), "-max_len=%d" % stage.get("max_len", 64),
            "-verbosity=0", "-print_final_stats=0"]
    flush()
    atheris.Setup(argv, one)
    atheris.Fuzz()
    flush()
    os._exit(0)


def load(prop):
    return importlib.import_module("vf.props." + prop.lower())


def main():
    ap = argparse.ArgumentParser()
    ap.add_argument("--prop", required=True)
    ap.add_argument("--tier", default="quick")
    ap.add_argument("--describe", action="store_true")
    ap.add_argument("--stage")
    ap.add_argument("--shard", type=int, default=0)
    ap.add_argument("--nshards", type=int, default=1)
    ap.add_argument("--seed", type=int, default=1)
    ap.add_argument("--out")
    ap.add_argument("--journal")
    ap.add_argument("--known", default="")
    ap.add_argument("--replay")
    ap.add_argument("--shrink-limit", type=float, default=60.0)
    a = ap.parse_args()

    signal.signal(signal.SIGPROF, _alarm)      # CPU-time watchdog (ITIMER_PROF): a loaded machine cannot trip it, a run-away computation does
    os.environ["VERIF_SHARD"] = str(a.shard)
    if "LD_PRELOAD" not in os.environ:
        # a run-away case (e.g. a search that no longer terminates) must not exhaust the machine before the watchdog
        # fires: cap the address space of unsanitised workers (sanitised ones reserve terabytes of shadow memory)
        try:
            import resource
            lim = int(float(os.environ.get("VERIF_WORKER_MEM_GB", "2.5")) * (1 << 30))
            resource.setrlimit(resource.RLIMIT_AS, (lim, lim))
        except Exception:
            pass
    t0 = time.time()
    out = {"harness_error": None}
    try:
        _check_overlay()
        _quiet_logs()
        if a.stage and a.stage.startswith("fuzz") and not a.replay:
            # pure-Python targets: instrument the package under test while it is imported
            inc = os.environ.get("VERIF_FUZZ_INSTRUMENT", "")
            if inc:
                import atheris
                with atheris.instrument_imports(include=inc.split(",")):
                    for m in inc.split(","):
                        importlib.import_module(m)
        mod = load(a.prop)
        stages = mod.stages(a.tier)
        if a.describe:
            desc = {
                "id": mod.ID, "level": mod.LEVEL, "rule": mod.RULE,
                "assumptions": getattr(mod, "ASSUMPTIONS", []),
                "stages": [{"name": s["name"], "kind": s["kind"], "flavour": s.get("flavour", "plain"),
                            "shards": s.get("shards", 16), "exhaustive": bool(s.get("exhaustive", False)),
                            "instrument": s.get("instrument"),
                            "examples": (s.get("examples") or {}).get(a.tier)} for s in stages],
            }
            out.update(desc)
        elif a.replay:
            with open(a.replay) as f:
                rep = json.load(f)
            stage = next(s for s in stages if s["name"] == rep["stage"])
            ctx = Ctx(stage["name"])
            if stage.get("batch"):
                stage["run"](rep["case"], ctx)
                vs = list(ctx.violations.values())
                out["violation"] = vs[0] if vs else None
            else:
                v = run_one(stage, rep["case"], ctx, Journal(a.journal))
                out["violation"] = None if v is None else {"bucket": v.bucket, "message": v.msg}
        else:
            stage = next(s for s in stages if s["name"] == a.stage)
            if a.out:
                STOP_MARKER[0] = os.path.join(os.path.dirname(a.out), "STOP-" + stage["name"])
            known = [k for k in a.known.split("|") if k]
            ctx = Ctx(stage["name"], known, distinct_by_construction=(stage["kind"] == "enum"))
            journal = Journal(a.journal)
            try:
                if stage["kind"] == "hyp":
                    run_hyp_stage(stage, a.tier, a.shard, a.nshards, a.seed, ctx, journal, a.shrink_limit)
                elif stage["kind"] == "enum":
                    run_enum_stage(stage, a.tier, a.shard, a.nshards, ctx, journal)
                elif stage["kind"] == "fuzz":
                    run_fuzz_stage(stage, a.tier, a.shard, a.nshards, a.seed, ctx, a.out, os.path.dirname(a.out), journal)
                else:
                    raise HarnessError("unknown stage kind %r" % stage["kind"])
            except StopStage:
                pass
            out.update(ctx.result())
    except HarnessError as e:
        out["harness_error"] = str(e)
    except Exception as e:       # import errors and the like
        out["harness_error"] = "worker failure: " + short_tb(e)
    out["wall_s"] = time.time() - t0
    if a.out:
        tmp = a.out + ".tmp"
        with open(tmp, "w") as f:
            json.dump(out, f, default=repr)
        os.replace(tmp, a.out)
    else:
        json.dump(out, sys.stdout, default=repr)
    sys.stdout.flush()
    sys.stderr.flush()
    # skip interpreter teardown: nothing to flush, and ASan/traits teardown noise is irrelevant
    os._exit(0 if out["harness_error"] is None else 2)


if __name__ == "__main__":
    main()
