"""Shared vocabulary of every check: Violation, the per-stage context, digests.

A property module (vf/props/cNN.py) exposes

    ID, LEVEL, RULE, ASSUMPTIONS
    def stages(tier) -> list of dict:
        name      stage name
        kind      'hyp'  : Hypothesis-generated cases   (strategy(tier), examples{tier:int})
                  'enum' : enumerated cases             (gen(tier, shard, nshards) -> iterator)
        run       run(case, ctx)  -- raises Violation via ctx.fail(...), or records via ctx.report(...)
        flavour   'plain' | 'asan'       (default 'plain')
        shards    number of worker processes (default 16)
        batch     enum only: run() counts its own evaluations with ctx.add_evals(n)
        exhaustive  bool, the stage enumerates a finite space completely

Cases are JSON-serialisable; run(case, ctx) is a pure function of case and the
code under test.
"""
import hashlib
import json
import traceback
from collections import Counter


class Violation(Exception):
    def __init__(self, bucket, msg=""):
        super().__init__("%s: %s" % (bucket, msg))
        self.bucket = bucket
        self.msg = msg


class HarnessError(BaseException):
    """Something is wrong with the harness itself (exit 2, never VIOLATION)."""


class StopStage(BaseException):
    """Abort the current stage (after a hard violation such as a watchdog expiry)."""


class WatchdogTimeout(BaseException):
    pass


def canon(case):
    return json.dumps(case, sort_keys=True, default=repr, separators=(",", ":"))


def digest(case):
    return hashlib.blake2b(canon(case).encode("utf-8", "surrogatepass"), digest_size=8).hexdigest()


MAX_SAMPLES = 3


class Ctx:
    def __init__(self, stage_name, active_known=(), distinct_by_construction=False):
        self.stage = stage_name
        self.active_known = set(active_known)
        self.by_construction = distinct_by_construction
        self.evaluations = 0
        self.nontrivial_digests = set()
        self.nontrivial_count = 0
        self.classes = Counter()
        self.samples = []
        self.known_hits = Counter()
        self.excluded = Counter()
        self.violations = {}      # bucket -> {bucket, message, case}
        self.case = None
        self._marked = False
        self.meta = {}

    # -- per case bookkeeping
    def begin(self, case):
        self.case = case
        self._marked = False
        self.evaluations += 1

    def add_evals(self, n):
        self.evaluations += n

    def label(self, name, n=1):
        self.classes[name] += n

    def nontrivial(self, key=None, sample=None):
        """Mark the current case (or the thing identified by key) as non-trivial."""
        if key is None:
            if self._marked:
                return
            self._marked = True
        if self.by_construction and key is None:
            self.nontrivial_count += 1
        else:
            k = key if key is not None else self.case
            self.nontrivial_digests.add(digest(k))
        if len(self.samples) < MAX_SAMPLES:
            s = sample if sample is not None else (key if key is not None else self.case)
            try:
                txt = canon(s)
                if len(txt) < 4000:
                    self.samples.append(json.loads(txt))
            except Exception:
                pass

    def exclude(self, what, n=1):
        """Count an input class that was excluded by construction (active known finding)."""
        self.excluded[what] += n

    # -- verdicts
    def fail(self, bucket, msg=""):
        raise Violation(bucket, str(msg)[:4000])

    def check(self, cond, bucket, msg=""):
        if not cond:
            raise Violation(bucket, str(msg() if callable(msg) else msg)[:4000])

    def report(self, bucket, msg, case):
        """Record a violation without raising (batch / enumeration stages)."""
        if bucket in self.active_known:
            self.known_hits[bucket] += 1
            return
        if bucket not in self.violations and len(self.violations) < 20:
            self.violations[bucket] = {"bucket": bucket, "message": str(msg)[:4000], "case": case}

    def result(self):
        return {
            "stage": self.stage,
            "evaluations": self.evaluations,
            "nontrivial_digests": sorted(self.nontrivial_digests),
            "nontrivial_count": self.nontrivial_count,
            "classes": dict(self.classes),
            "samples": self.samples,
            "known_hits": dict(self.known_hits),
            "excluded": dict(self.excluded),
            "violations": list(self.violations.values()),
            "meta": self.meta,
        }


def tb_in_package(exc, marker):
    """True if any traceback frame of exc lies in a file whose path contains marker."""
    tb = exc.__traceback__
    while tb is not None:
        if marker in tb.tb_frame.f_code.co_filename:
            return True
        tb = tb.tb_next
    c = exc.__cause__ or exc.__context__
    if c is not None and c is not exc:
        return tb_in_package(c, marker)
    return False


def short_tb(exc, limit=12):
    return "".join(traceback.format_exception(type(exc), exc, exc.__traceback__, limit=-limit))[-3000:]
