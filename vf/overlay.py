"""Build the package-under-test from the *working tree* of the repository.

The overlay is a directory ``<root>/.build/<flavour>-<hash>/traits`` made of
symlinks to every entry of ``<repo>/traits`` except the (possibly stale)
in-tree ``ctraits*.so``, plus a freshly compiled extension built from the
current ``ctraits.c``.  /repo is never written.
"""
import fcntl
import hashlib
import os
import shutil
import subprocess
import sys
import sysconfig

ROOT = os.path.dirname(os.path.dirname(os.path.abspath(__file__)))
BUILD = os.path.join(ROOT, ".build")
DEPS = os.path.join(ROOT, ".deps")

FLAGS = {
    "plain": ["gcc", "-shared", "-fPIC", "-O2", "-g"],
    "asan": ["gcc", "-shared", "-fPIC", "-O1", "-g", "-fno-omit-frame-pointer",
             "-fsanitize=address,undefined", "-fno-sanitize-recover=undefined"],
    "fuzz": ["clang", "-shared", "-fPIC", "-O1", "-g", "-fno-omit-frame-pointer",
             "-fsanitize=address,fuzzer-no-link"],
}

LIBASAN = "/usr/lib/gcc/x86_64-linux-gnu/12/libasan.so"


def repo_root():
    return os.environ.get("VERIF_REPO_ROOT", "/repo")


def ext_suffix():
    return sysconfig.get_config_var("EXT_SUFFIX")


def ensure_atheris():
    """atheris (and its asan_with_fuzzer.so) live in .deps; install from the local wheelhouse if missing (offline)."""
    if os.path.exists(os.path.join(DEPS, "asan_with_fuzzer.so")):
        return
    os.makedirs(DEPS, exist_ok=True)
    subprocess.run([sys.executable, "-m", "pip", "install", "--no-index", "--find-links", "/opt/veriftools/wheels",
                    "--disable-pip-version-check", "-q", "--target", DEPS, "atheris"], check=False)


def build(flavour="plain"):
    """Return the overlay directory (to be put first on PYTHONPATH)."""
    if flavour == "fuzz":
        ensure_atheris()
    repo = repo_root()
    src_dir = os.path.join(repo, "traits")
    csrc = os.path.join(src_dir, "ctraits.c")
    with open(csrc, "rb") as f:
        data = f.read()
    flags = FLAGS[flavour]
    h = hashlib.sha256(data + repr(flags).encode()).hexdigest()[:16]
    rh = hashlib.sha256(os.path.realpath(repo).encode()).hexdigest()[:8]
    os.makedirs(BUILD, exist_ok=True)
    # one overlay per (flavour, repository root, content of ctraits.c): concurrent checks against different trees
    # (sensitivity trials) must not remove each other's builds
    prefix = "%s-%s-" % (flavour, rh)
    ov = os.path.join(BUILD, prefix + h)
    lock = open(os.path.join(BUILD, ".lock-" + prefix.rstrip("-")), "w")
    fcntl.flock(lock, fcntl.LOCK_EX)
    try:
        pkg = os.path.join(ov, "traits")
        so = os.path.join(ov, "ctraits" + ext_suffix())
        os.makedirs(ov, exist_ok=True)
        if not os.path.exists(so):
            inc = sysconfig.get_paths()["include"]
            tmp = so + ".tmp%d" % os.getpid()
            cmd = flags + ["-I" + inc, csrc, "-o", tmp]
            r = subprocess.run(cmd, capture_output=True, text=True)
            if r.returncode != 0:
                sys.stderr.write(r.stderr)
                raise RuntimeError("compiling ctraits.c failed (%s)" % flavour)
            os.replace(tmp, so)
            # drop older builds of the same flavour
            for d in os.listdir(BUILD):
                if d.startswith(prefix) and d != os.path.basename(ov):
                    shutil.rmtree(os.path.join(BUILD, d), ignore_errors=True)
        # bring the symlink farm up to date every time (cheap, sees new files) WITHOUT ever removing a valid
        # link: other checks against the same tree may be importing from it right now
        os.makedirs(pkg, exist_ok=True)
        want = {}
        for name in os.listdir(src_dir):
            if name == "__pycache__":
                continue
            if name.startswith("ctraits.") and name.endswith(".so"):
                continue
            want[name] = os.path.join(src_dir, name)
        want["ctraits" + ext_suffix()] = so
        for name in os.listdir(pkg):
            path = os.path.join(pkg, name)
            if name not in want or not os.path.islink(path) or os.readlink(path) != want[name]:
                if os.path.isdir(path) and not os.path.islink(path):
                    shutil.rmtree(path)
                else:
                    os.unlink(path)
        for name, target in want.items():
            path = os.path.join(pkg, name)
            if not os.path.lexists(path):
                os.symlink(target, path)
    finally:
        fcntl.flock(lock, fcntl.LOCK_UN)
        lock.close()
    return ov


def env_for(flavour, ov):
    env = dict(os.environ)
    paths = [ov, ROOT]
    if os.path.isdir(DEPS):
        paths.append(DEPS)
    env["PYTHONPATH"] = os.pathsep.join(paths)
    env["PYTHONDONTWRITEBYTECODE"] = "1"
    env["PYTHONHASHSEED"] = "0"
    env["VERIF_OVERLAY"] = ov
    env.pop("PYTHONSTARTUP", None)
    if flavour == "asan":
        env["LD_PRELOAD"] = LIBASAN
        env["ASAN_OPTIONS"] = "detect_leaks=0:abort_on_error=0:exitcode=99:allocator_may_return_null=1"
        env["UBSAN_OPTIONS"] = "print_stacktrace=1:halt_on_error=1:exitcode=99"
        env["PYTHONMALLOC"] = "malloc"
    elif flavour == "fuzz":
        env["LD_PRELOAD"] = os.path.join(DEPS, "asan_with_fuzzer.so")
        env["ASAN_OPTIONS"] = "detect_leaks=0:exitcode=99:allocator_may_return_null=1"
        env["PYTHONMALLOC"] = "malloc"
    return env


if __name__ == "__main__":
    print(build(sys.argv[1] if len(sys.argv) > 1 else "plain"))
