"""JSON codec for generated values (cases must be plain JSON so that a replay file needs no library).

Plain JSON scalars stand for themselves.  Everything else is a tagged dict:
  {"t": [...]} tuple   {"l": [...]} list   {"s": [...]} set   {"fs": [...]} frozenset
  {"d": [[k, v], ...]} dict      {"f": "nan"|"inf"|"-inf"|"-0.0"} special floats
  {"b": "hex"} bytes   {"c": [re, im]} complex   {"x": "name"} a named special object (see vf.lattice)
A bare JSON list is a Python list (used where no ambiguity arises); a bare JSON dict without a tag is not used.
"""
import math

SPECIAL = {}       # name -> factory(), filled by vf.lattice


def dec(x):
    if isinstance(x, list):
        return [dec(i) for i in x]
    if isinstance(x, dict):
        (tag, v), = x.items()
        if tag == "t":
            return tuple(dec(i) for i in v)
        if tag == "l":
            return [dec(i) for i in v]
        if tag == "s":
            return set(dec(i) for i in v)
        if tag == "fs":
            return frozenset(dec(i) for i in v)
        if tag == "d":
            return {dec(k): dec(w) for k, w in v}
        if tag == "f":
            return float(v)
        if tag == "b":
            return bytes.fromhex(v)
        if tag == "c":
            return complex(dec(v[0]), dec(v[1]))
        if tag == "x":
            return SPECIAL[v]()
        raise ValueError("unknown tag %r" % tag)
    return x


def enc(x):
    if x is None or type(x) in (bool, int, str):
        return x
    if type(x) is float:
        if math.isnan(x) or math.isinf(x) or (x == 0 and math.copysign(1, x) < 0):
            return {"f": repr(x)}
        return x
    if type(x) is tuple:
        return {"t": [enc(i) for i in x]}
    if type(x) is list:
        return {"l": [enc(i) for i in x]}
    if type(x) is set:
        return {"s": sorted((enc(i) for i in x), key=repr)}
    if type(x) is frozenset:
        return {"fs": sorted((enc(i) for i in x), key=repr)}
    if type(x) is dict:
        return {"d": [[enc(k), enc(v)] for k, v in x.items()]}
    if type(x) is bytes:
        return {"b": x.hex()}
    if type(x) is complex:
        return {"c": [enc(x.real), enc(x.imag)]}
    raise TypeError("cannot encode %r" % (x,))
