"""Shared value lattice, JSON trait specifications, builders and documentation-derived references.

spec  (JSON)                                     trait built
  ["Int"] ["Float"] ["Complex"] ["Str"] ["Bytes"] ["Bool"]       fast scalar types;  ["BaseInt"] ... Python twins
  ["CInt"] ["CFloat"] ["CComplex"] ["CStr"] ["CBytes"] ["CBool"]  casts
  ["Range", lo, hi, excl_lo, excl_hi]  ["BaseRange", ...]         int or float range (None = open)
  ["Enum", [values]]   ["Map", [[k, v], ...]]   ["PrefixList", [strs]]   ["PrefixMap", [[k, v], ...]]
  ["Tuple", [specs]]   ["TupleAny"]
  ["Instance", cls, allow_none, adapt]   ["Type", cls, allow_none]   ["This", allow_none]
  ["Callable", allow_none]   ["Module"]   ["None"]
  ["String", minlen, maxlen, regex]
  ["List", spec, minlen, maxlen]  ["Dict", kspec, vspec]  ["Set", spec]
  ["Either", [specs]]   ["Union", [specs]]
Values in specs are encoded with vf.values.enc.  cls is a name in CLASSES.

ref(spec, v) -> ("acc", stored) | ("rej",) | ("unspec",)   and may raise the exception the value's own
conversion protocol raises (passed through, as the documentation says).
"""
import collections
import decimal
import fractions
import math
import operator
import re
import sys

import numpy as np

from traits import api as T
from vf import values as V

nan = float("nan")
inf = float("inf")


# ----------------------------------------------------------------------------- helper classes
class Foo(T.HasTraits):
    pass


class Bar(Foo):
    pass


class Other(T.HasTraits):
    pass


class MyInt(int):
    pass


class Plain:
    """A class whose metaclass is plain `type` (Foo's is MetaHasTraits)."""


class PlainSub(Plain):
    pass


class Spoof:
    """Not a Plain by type, but isinstance() says it is (the documented instance test honours __class__)."""
    __class__ = Plain


_ALIVE = []


def _proxy_plain():
    import weakref
    p = Plain()
    _ALIVE.append(p)
    del _ALIVE[:-64]
    return weakref.proxy(p)


class MyFloat(float):
    pass


class MyStr(str):
    pass


P = collections.namedtuple("P", "a b")


class Idx:
    def __init__(s, v):
        s.v = v

    def __index__(s):
        if isinstance(s.v, Exception):
            raise s.v
        return s.v

    def __repr__(s):
        return "Idx(%r)" % (s.v,)


class Flt:
    def __init__(s, v):
        s.v = v

    def __float__(s):
        if isinstance(s.v, Exception):
            raise s.v
        return s.v

    def __repr__(s):
        return "Flt(%r)" % (s.v,)


class Cpx:
    def __init__(s, v):
        s.v = v

    def __complex__(s):
        if isinstance(s.v, Exception):
            raise s.v
        return s.v

    def __repr__(s):
        return "Cpx(%r)" % (s.v,)


class BadEq:
    def __eq__(s, o):
        raise RuntimeError("eq")
    __hash__ = None

    def __repr__(s):
        return "BadEq()"


def _fn():
    return 1


CLASSES = {"Foo": Foo, "Bar": Bar, "Other": Other, "int": int, "str": str, "MyInt": MyInt, "Plain": Plain}

# name -> factory; the names are what cases carry ({"x": name})
SPECIALS = collections.OrderedDict([
    ("nextafter(0,1)", lambda: math.nextafter(0.0, 1)), ("nextafter(0,-1)", lambda: math.nextafter(0.0, -1)),
    ("nextafter(1,2)", lambda: math.nextafter(1.0, 2)), ("nextafter(1,0)", lambda: math.nextafter(1.0, 0)),
    ("nextafter(3,4)", lambda: math.nextafter(3.0, 4)), ("nextafter(3,0)", lambda: math.nextafter(3.0, 0)),
    ("MyInt(1)", lambda: MyInt(1)), ("MyInt(5)", lambda: MyInt(5)), ("MyFloat(0.5)", lambda: MyFloat(0.5)),
    ("MyFloat(nan)", lambda: MyFloat(nan)), ("MyStr(a)", lambda: MyStr("a")), ("MyStr(yes)", lambda: MyStr("yes")),
    ("P(1,2)", lambda: P(1, 2)), ("P(1,a)", lambda: P(1, "a")),
    ("np.int8(1)", lambda: np.int8(1)), ("np.int64(2)", lambda: np.int64(2)), ("np.uint64max", lambda: np.uint64(2 ** 64 - 1)),
    ("np.float32(0.5)", lambda: np.float32(0.5)), ("np.float64(nan)", lambda: np.float64(nan)),
    ("np.float64(0.5)", lambda: np.float64(0.5)), ("np.bool_(True)", lambda: np.bool_(True)),
    ("np.str_(a)", lambda: np.str_("a")), ("np.array(1)", lambda: np.array(1)), ("np.array([1,2])", lambda: np.array([1, 2])),
    ("np.array(0.5)", lambda: np.array(0.5)), ("np.complex64(1j)", lambda: np.complex64(1j)),
    ("Fraction(1,2)", lambda: fractions.Fraction(1, 2)), ("Decimal(0.5)", lambda: decimal.Decimal("0.5")),
    ("Decimal(2)", lambda: decimal.Decimal("2")),
    ("Idx(1)", lambda: Idx(1)), ("Idx(True)", lambda: Idx(True)), ("Idx(2**70)", lambda: Idx(2 ** 70)),
    ("Idx(ValueError)", lambda: Idx(ValueError("v"))), ("Idx(ZeroDivisionError)", lambda: Idx(ZeroDivisionError("z"))),
    ("Idx(str)", lambda: Idx("x")), ("Idx(MyInt)", lambda: Idx(MyInt(2))),
    ("Flt(0.5)", lambda: Flt(0.5)), ("Flt(ZeroDivisionError)", lambda: Flt(ZeroDivisionError("z"))),
    ("Flt(OverflowError)", lambda: Flt(OverflowError("o"))), ("Flt(str)", lambda: Flt("x")), ("Flt(nan)", lambda: Flt(nan)),
    ("Flt(MyFloat)", lambda: Flt(MyFloat(0.5))),
    ("Cpx(1j)", lambda: Cpx(1j)), ("Cpx(ValueError)", lambda: Cpx(ValueError("c"))), ("Cpx(str)", lambda: Cpx("x")),
    ("len", lambda: len), ("fn", lambda: _fn), ("Foo", lambda: Foo), ("Bar", lambda: Bar), ("Other", lambda: Other),
    ("int", lambda: int), ("Foo()", lambda: Foo()), ("Bar()", lambda: Bar()), ("Other()", lambda: Other()),
    ("sys", lambda: sys), ("BadEq()", lambda: BadEq()), ("object()", lambda: object()),
    ("bytearray(a)", lambda: bytearray(b"a")), ("range(3)", lambda: range(3)),
    ("Plain()", lambda: Plain()), ("PlainSub()", lambda: PlainSub()), ("Spoof()", lambda: Spoof()), ("proxy(Plain())", _proxy_plain),
    ("Plain", lambda: Plain), ("PlainSub", lambda: PlainSub),
])
V.SPECIAL.update(SPECIALS)

PLAIN = [0, 1, -1, 2, 3, 4, 5, 2 ** 31, 2 ** 63, 2 ** 64, 2 ** 70, -2 ** 70, 10 ** 400, True, False,
         0.0, -0.0, 0.5, 1.0, 1.5, 3.0, 1e308, inf, -inf, nan, 100, -100,
         1j, complex(nan, 0), complex(0.5, 0),
         "", "a", "abc", "abcd", "abcdef", "yes", "y", "ye", "n", "no", "al", "alp", "é", "1", "0.5", b"", b"a", None,
         (), (1,), (1, 2), (1, "a"), (1.0, 2), ("a", 1), (0.5, 1), (1, (0.5, True)), (1, 2, 3), (nan, 1), (1, 2, "a"),
         ((1, "a"), 2),
         [1, 2], [], ["a"], [1, "a"], {}, {1: 2}, {"a": 1}, set(), {1}, {"a"}]


def all_values():
    """List of (encoded, python value) for the lattice."""
    out = [(V.enc(p), p) for p in PLAIN]
    out += [({"x": name}, f()) for name, f in SPECIALS.items()]
    return out


# ----------------------------------------------------------------------------- builders
def build(spec):
    k = spec[0]
    if k in ("Int", "Float", "Complex", "Str", "Bytes", "Bool", "BaseInt", "BaseFloat", "BaseComplex", "BaseStr",
             "BaseBytes", "BaseBool", "CInt", "CFloat", "CComplex", "CStr", "CBytes", "CBool", "Module"):
        return getattr(T, k)()
    if k in ("Range", "BaseRange"):
        return getattr(T, k)(V.dec(spec[1]), V.dec(spec[2]), exclude_low=spec[3], exclude_high=spec[4])
    if k == "Enum":
        return T.Enum(list(V.dec(spec[1])))
    if k == "Map":
        return T.Map(dict((V.dec(a), V.dec(b)) for a, b in spec[1]))
    if k == "MapMut":
        # the dictionary handed to Map is changed AFTER the trait was defined (keys dropped and added): whatever the trait
        # does about that, its compiled and its Python validator must keep consulting the same mapping
        d = dict((V.dec(a), V.dec(b)) for a, b in spec[1])
        t = T.Map(d)
        d.clear()
        d.update(dict((V.dec(a), V.dec(b)) for a, b in spec[2]))
        return t
    if k == "PrefixList":
        return T.PrefixList(list(spec[1]))
    if k == "PrefixMap":
        return T.PrefixMap(dict((a, V.dec(b)) for a, b in spec[1]))
    if k == "Tuple":
        return T.Tuple(*[build(s) for s in spec[1]])
    if k == "TupleAny":
        return T.Tuple()
    if k == "Instance":
        kw = {"allow_none": spec[2]}
        if len(spec) > 3 and spec[3] is not None:
            kw["adapt"] = spec[3]
        return T.Instance(CLASSES[spec[1]], **kw)
    if k == "InstanceClone":
        # a trait derived by calling an existing one with new metadata ("Instance(Foo)(allow_none=False)")
        return T.Instance(CLASSES[spec[1]], allow_none=spec[2])(allow_none=spec[3])
    if k == "Type":
        return T.Type(CLASSES[spec[1]], allow_none=spec[2])
    if k == "This":
        return T.This(allow_none=spec[1])
    if k == "Callable":
        return T.Callable(allow_none=spec[1])
    if k == "None":
        return None
    if k == "String":
        return T.String(minlen=spec[1], maxlen=spec[2] if spec[2] is not None else sys.maxsize, regex=spec[3] or "")
    if k == "List":
        return T.List(build(spec[1]), minlen=spec[2], maxlen=spec[3] if spec[3] is not None else sys.maxsize)
    if k == "Dict":
        return T.Dict(build(spec[1]), build(spec[2]))
    if k == "Set":
        return T.Set(build(spec[1]))
    if k == "Either":
        return T.Either(*[build(s) for s in spec[1]])
    if k == "Union":
        return T.Union(*[build(s) for s in spec[1]])
    raise ValueError(spec)


# ----------------------------------------------------------------------------- reference
class Rej(Exception):
    pass


ACC, REJ, UNSPEC = "acc", "rej", "unspec"


def to_int(v):
    if type(v) is int:
        return v
    try:
        return int(operator.index(v))
    except TypeError:
        raise Rej()


def to_float(v):
    if type(v) is float:
        return v
    if isinstance(v, (str, bytes, bytearray)):
        raise Rej()
    t = type(v)
    if isinstance(v, float) or hasattr(t, "__float__") or hasattr(t, "__index__"):
        try:
            return float(v)
        except TypeError:
            raise Rej()
    raise Rej()


def to_complex(v):
    if type(v) is complex:
        return v
    if isinstance(v, (str, bytes, bytearray)):
        raise Rej()
    t = type(v)
    if isinstance(v, complex) or hasattr(t, "__complex__") or hasattr(t, "__float__") or hasattr(t, "__index__"):
        try:
            return complex(v)
        except TypeError:
            raise Rej()
    raise Rej()


def _cast(fn, v, catch):
    try:
        return fn(v)
    except catch:
        raise Rej()


def collapse(r):
    """Member of a container whose reference is a set of alternatives: a single stored value or unspecified."""
    if r[0] == "acc-any":
        if not r[2] and all(eq(a[1], r[1][0][1]) for a in r[1]):
            return r[1][0]
        return (UNSPEC,)
    return r


def ref(spec, v, owner=None):
    """Documented behaviour of assigning v to the trait described by spec."""
    try:
        return _ref(spec, v, owner)
    except Rej:
        return (REJ,)


def _ref(spec, v, owner):
    if spec[0] == "InstanceClone":
        spec = ["Instance", spec[1], spec[3], None]
    if spec[0] == "MapMut":
        spec = ["Map", spec[2]]
    k = spec[0]
    if k.startswith("Base") and k != "BaseRange":
        k = k[4:]
    if k == "Int":
        return (ACC, to_int(v))
    if k == "Float":
        return (ACC, to_float(v))
    if k == "Complex":
        return (ACC, to_complex(v))
    if k == "Str":
        if type(v) is str:
            return (ACC, v)
        if isinstance(v, str):
            return (UNSPEC,)        # subclasses: documentation silent on exact type
        raise Rej()
    if k == "Bytes":
        if type(v) is bytes:
            return (ACC, v)
        if isinstance(v, bytes):
            return (UNSPEC,)
        raise Rej()
    if k == "Bool":
        if isinstance(v, (bool, np.bool_)):
            return (ACC, bool(v))
        raise Rej()
    if k == "CInt":
        return (ACC, _cast(int, v, (ValueError, TypeError)))
    if k == "CFloat":
        return (ACC, _cast(float, v, (ValueError, TypeError)))
    if k == "CComplex":
        return (ACC, _cast(complex, v, (ValueError, TypeError)))
    if k == "CStr":
        return (ACC, _cast(str, v, Exception))
    if k == "CBytes":
        return (ACC, _cast(bytes, v, Exception)) if not isinstance(v, int) or isinstance(v, bool) or v < 10 ** 6 else (UNSPEC,)
    if k == "CBool":
        return (ACC, _cast(bool, v, Exception))
    if k in ("Range", "BaseRange"):
        lo, hi, el, eh = V.dec(spec[1]), V.dec(spec[2]), spec[3], spec[4]
        isf = isinstance(lo, float) or isinstance(hi, float)
        x = (to_float if isf else to_int)(v)
        okl = lo is None or (lo < x if el else lo <= x)
        okh = hi is None or (x < hi if eh else x <= hi)
        if okl and okh:
            return (ACC, x)
        raise Rej()
    if k == "Enum":
        vals = list(V.dec(spec[1]))
        try:
            if v in vals:
                return (ACC, v)
        except Exception:
            return (UNSPEC,)
        raise Rej()
    if k == "Map":
        m = dict((V.dec(a), V.dec(b)) for a, b in spec[1])
        try:
            if v in m:
                return (ACC, v, m[v])
        except TypeError:
            raise Rej()
        except Exception:
            return (UNSPEC,)
        raise Rej()
    if k == "PrefixList":
        if isinstance(v, str):
            if v in spec[1]:
                return (ACC, str(v) if type(v) is str else v) if type(v) is str else (UNSPEC,)
            m = [s for s in spec[1] if s.startswith(v)]
            if len(m) == 1:
                return (ACC, m[0])
        raise Rej()
    if k == "PrefixMap":
        keys = [a for a, _ in spec[1]]
        m = dict((a, V.dec(b)) for a, b in spec[1])
        if isinstance(v, str):
            if v in m:
                return (ACC, v, m[v]) if type(v) is str else (UNSPEC,)
            c = [s for s in keys if s.startswith(v)]
            if len(c) == 1:
                return (ACC, c[0], m[c[0]])
        raise Rej()
    if k == "TupleAny":
        if type(v) is tuple:
            return (ACC, v)
        if isinstance(v, (tuple, list)):
            return (UNSPEC,)      # lists are converted by the implementation; the documentation is silent
        raise Rej()
    if k == "Tuple":
        if isinstance(v, list) and len(v) == len(spec[1]):
            return (UNSPEC,)
        if isinstance(v, tuple) and len(v) == len(spec[1]):
            outs = []
            for s, x in zip(spec[1], v):
                r = collapse(_ref(s, x, owner))
                if r[0] == UNSPEC:
                    return (UNSPEC,)
                outs.append(r[1])
            if type(v) is not tuple:
                return (UNSPEC,)     # tuple subclasses: stored type unspecified (see F13)
            return (ACC, tuple(outs))
        raise Rej()
    if k == "Instance":
        if v is None:
            if spec[2]:
                return (ACC, None)
            raise Rej()
        if isinstance(v, CLASSES[spec[1]]):
            return (ACC, v)
        raise Rej()
    if k == "Type":
        if v is None:
            if spec[2]:
                return (ACC, None)
            raise Rej()
        if isinstance(v, type) and issubclass(v, CLASSES[spec[1]]):
            return (ACC, v)
        raise Rej()
    if k == "This":
        if v is None:
            if spec[1]:
                return (ACC, None)
            raise Rej()
        if owner is not None and isinstance(v, owner):
            return (ACC, v)
        raise Rej()
    if k == "Callable":
        if v is None:
            if spec[1]:
                return (ACC, None)
            raise Rej()
        if callable(v):
            return (ACC, v)
        raise Rej()
    if k == "Module":
        if isinstance(v, type(sys)):
            return (ACC, v)
        raise Rej()
    if k == "None":
        if v is None:
            return (ACC, None)
        raise Rej()
    if k == "String":
        if isinstance(v, str):
            s = v
        elif isinstance(v, (int, float, complex)) and not isinstance(v, (np.generic,)):
            return (UNSPEC,)           # numbers are str()-converted first ("strx"); only the criteria are checked
        else:
            return (UNSPEC,) if isinstance(v, np.generic) else (REJ,)
        maxlen = spec[2] if spec[2] is not None else sys.maxsize
        if spec[1] <= len(s) <= maxlen and (not spec[3] or re.match(spec[3], s)):
            return (ACC, s) if type(s) is str else (UNSPEC,)
        raise Rej()
    if k == "List":
        if not isinstance(v, list):
            raise Rej()
        maxlen = spec[3] if spec[3] is not None else sys.maxsize
        if not spec[2] <= len(v) <= maxlen:
            raise Rej()
        outs = []
        for x in v:
            r = collapse(_ref(spec[1], x, owner))
            if r[0] == UNSPEC:
                return (UNSPEC,)
            outs.append(r[1])
        return (ACC, outs)
    if k == "Set":
        if not isinstance(v, set):
            raise Rej()
        outs = set()
        for x in v:
            r = collapse(_ref(spec[1], x, owner))
            if r[0] == UNSPEC:
                return (UNSPEC,)
            outs.add(r[1])
        return (ACC, outs)
    if k == "Dict":
        if not isinstance(v, dict):
            raise Rej()
        outs = {}
        for a, b in v.items():
            ra, rb = collapse(_ref(spec[1], a, owner)), collapse(_ref(spec[2], b, owner))
            if UNSPEC in (ra[0], rb[0]):
                return (UNSPEC,)
            outs[ra[1]] = rb[1]
        return (ACC, outs)
    if k in ("Either", "Union"):
        # existential reading: accepted iff some alternative accepts; stored is what one of the accepting
        # alternatives stores (the order of evaluation is C03's subject)
        results = []
        unspec = False
        passthrough = None
        for s in spec[1]:
            try:
                r = ref(s, v, owner)
            except Exception as e:          # conversion protocol raised inside this alternative
                passthrough = e
                continue
            if r[0] == ACC:
                results.append(r)
            elif r[0] == "acc-any":
                results.extend(r[1])
                unspec = unspec or r[2]
            elif r[0] == UNSPEC:
                unspec = True
        if results:
            return ("acc-any", results, unspec or passthrough is not None)
        if unspec or passthrough is not None:
            return (UNSPEC,)
        raise Rej()
    raise ValueError(spec)


def eq(a, b):
    """Equal value of the same exact type, NaN-aware, -0.0-aware."""
    if type(a) is not type(b):
        return False
    if isinstance(a, float):
        return (a != a and b != b) or (a == b and math.copysign(1, a) == math.copysign(1, b))
    if isinstance(a, complex):
        return eq(a.real, b.real) and eq(a.imag, b.imag)
    if isinstance(a, (tuple, list)):
        return len(a) == len(b) and all(eq(x, y) for x, y in zip(a, b))
    if isinstance(a, dict):
        if len(a) != len(b):
            return False
        rest = list(b.items())
        for k, x in a.items():
            # (keys are matched with eq as well: a NaN key is found neither by hash lookup nor by ==)
            hit = next((i for i, (k2, y) in enumerate(rest) if eq(k, k2) and eq(x, y)), None)
            if hit is None:
                return False
            del rest[hit]
        return True
    if isinstance(a, (set, frozenset)):
        if len(a) != len(b):
            return False
        rest = list(b)
        for x in a:
            hit = next((i for i, y in enumerate(rest) if eq(x, y)), None)
            if hit is None:
                return False
            del rest[hit]
        return True
    try:
        r = a == b
        return bool(r) if not isinstance(r, np.ndarray) else bool(r.all())
    except Exception:
        return a is b


def in_domain(spec, x, owner=None):
    """Independent predicate on a *stored* value: does it lie in the declared domain? (None = cannot tell)"""
    if spec[0] == "InstanceClone":
        spec = ["Instance", spec[1], spec[3], None]
    if spec[0] == "MapMut":
        spec = ["Map", spec[2]]
    k = spec[0]
    if k.startswith("Base") and k != "BaseRange":
        k = k[4:]
    if k in ("Int", "CInt"):
        return type(x) is int
    if k in ("Float", "CFloat"):
        return type(x) is float
    if k in ("Complex", "CComplex"):
        return type(x) is complex
    if k in ("Str", "CStr"):
        return isinstance(x, str)
    if k in ("Bytes", "CBytes"):
        return isinstance(x, bytes)
    if k in ("Bool", "CBool"):
        return type(x) is bool
    if k in ("Range", "BaseRange"):
        lo, hi, el, eh = V.dec(spec[1]), V.dec(spec[2]), spec[3], spec[4]
        isf = isinstance(lo, float) or isinstance(hi, float)
        if type(x) is not (float if isf else int):
            return False
        okl = lo is None or (lo < x if el else lo <= x)
        okh = hi is None or (x < hi if eh else x <= hi)
        return bool(okl and okh)
    if k == "Enum":
        try:
            return x in list(V.dec(spec[1]))
        except Exception:
            return None
    if k == "Map":
        try:
            return x in dict((V.dec(a), 0) for a, b in spec[1])
        except Exception:
            return None
    if k == "PrefixList":
        return isinstance(x, str) and x in spec[1]
    if k == "PrefixMap":
        return isinstance(x, str) and x in [a for a, _ in spec[1]]
    if k == "TupleAny":
        return isinstance(x, tuple)
    if k == "Tuple":
        if not (isinstance(x, tuple) and len(x) == len(spec[1])):
            return False
        rs = [in_domain(s, i, owner) for s, i in zip(spec[1], x)]
        return False if False in rs else (None if None in rs else True)
    if k == "Instance":
        # adapt='default' stores the default (None here) for a value that cannot be adapted
        none_ok = spec[2] or (len(spec) > 3 and spec[3] == "default")
        return (x is None and none_ok) or (x is not None and isinstance(x, CLASSES[spec[1]]))
    if k == "Type":
        return (x is None and spec[2]) or (isinstance(x, type) and issubclass(x, CLASSES[spec[1]]))
    if k == "This":
        return (x is None and spec[1]) or (x is not None and owner is not None and isinstance(x, owner))
    if k == "Callable":
        return (x is None and spec[1]) or callable(x)
    if k == "Module":
        return isinstance(x, type(sys))
    if k == "None":
        return x is None
    if k == "String":
        maxlen = spec[2] if spec[2] is not None else sys.maxsize
        return isinstance(x, str) and spec[1] <= len(x) <= maxlen and bool(not spec[3] or re.match(spec[3], x))
    if k == "List":
        maxlen = spec[3] if spec[3] is not None else sys.maxsize
        if not (isinstance(x, list) and spec[2] <= len(x) <= maxlen):
            return False
        rs = [in_domain(spec[1], i, owner) for i in x]
        return False if False in rs else (None if None in rs else True)
    if k == "Set":
        if not isinstance(x, set):
            return False
        rs = [in_domain(spec[1], i, owner) for i in x]
        return False if False in rs else (None if None in rs else True)
    if k == "Dict":
        if not isinstance(x, dict):
            return False
        rs = [in_domain(spec[1], a, owner) for a in x] + [in_domain(spec[2], b, owner) for b in x.values()]
        return False if False in rs else (None if None in rs else True)
    if k in ("Either", "Union"):
        rs = [in_domain(s, x, owner) for s in spec[1]]
        return True if True in rs else (None if None in rs else False)
    raise ValueError(spec)


# ----------------------------------------------------------------------------- configuration grid
def grid():
    g = [[n] for n in ("Int", "Float", "Complex", "Str", "Bytes", "Bool", "BaseInt", "BaseFloat", "BaseComplex", "BaseStr",
                       "BaseBytes", "BaseBool", "CInt", "CFloat", "CComplex", "CStr", "CBytes", "CBool", "Module", "TupleAny")]
    for kind in ("Range", "BaseRange"):
        for lo, hi in ((None, 1.0), (0.0, None), (0.0, 1.0), (None, 3), (0, None), (0, 3), (1.0, 3.0), (-1, 1)):
            for el in (False, True):
                for eh in (False, True):
                    g.append([kind, lo, hi, el, eh])
    g += [["Enum", [1, 2, "a", None]], ["Enum", [1.0, True, "yes"]], ["Enum", [{"f": "nan"}, 1]], ["Enum", [{"t": [1, 2]}, 0.5]],
          ["Map", [["yes", 1], ["no", 0], [1, 2]]], ["Map", [[{"t": [1, 2]}, "pair"], [None, "none"]]],
          ["PrefixList", ["yes", "no", "yeah"]], ["PrefixList", ["a", "ab", "abc"]],
          # a proper prefix shared by THREE values ("a", "al"), by two ("alp..." is unique, "b" too)
          ["PrefixList", ["alpha", "alto", "almond", "beta"]], ["PrefixMap", [["alpha", 1], ["alto", 2], ["almond", 3], ["beta", 4]]],
          ["PrefixMap", [["yes", 1], ["no", 0], ["yeah", 2]]],
          ["Tuple", [["Int"], ["Int"]]], ["Tuple", [["Float"], ["Str"]]], ["Tuple", [["Int"], ["Tuple", [["Float"], ["Bool"]]]]],
          ["Tuple", [["Range", 0.0, 1.0, False, False], ["Int"]]], ["Tuple", [["Int"], ["Str"]]],
          ["String", 1, 3, ""], ["String", 0, None, "^a"], ["String", 2, 4, "^[ab]+$"],
          ["String", 0, 4, "^[a-z]*$"], ["String", 2, None, "^[a-z]*$"], ["String", 0, 2, ""], ["String", 3, None, ""],
          ["List", ["Int"], 0, None], ["List", ["Int"], 1, 2], ["List", ["Float"], 0, None], ["List", ["Str"], 0, 3],
          ["Dict", ["Str"], ["Int"]], ["Dict", ["Int"], ["Float"]], ["Set", ["Int"]], ["Set", ["Str"]], ["None"]]
    # a mapped alternative next to one that takes UNHASHABLE values (the mapping is asked about a list / dict)
    g += [["Either", [["Map", [["yes", 1], ["no", 0]]], ["List", ["Int"], 0, None]]],
          ["Either", [["PrefixMap", [["yes", 1], ["no", 0]]], ["Dict", ["Str"], ["Int"]]]],
          ["Either", [["PrefixList", ["yes", "no"]], ["List", ["Int"], 0, None]]],
          ["Union", [["Map", [["yes", 1], ["no", 0]]], ["Set", ["Int"]]]]]
    g += [["MapMut", [["yes", 1], ["no", 0]], [["yes", 1], ["maybe", 2]]],
          ["Either", [["MapMut", [["yes", 1], ["no", 0]], [["yes", 1], ["maybe", 2]]], ["Int"]]]]
    g += [["InstanceClone", "Foo", True, False], ["InstanceClone", "Foo", False, True], ["InstanceClone", "int", True, False]]
    g += [["Instance", "Plain", False, "yes"], ["Instance", "Plain", True, "default"], ["Instance", "Plain", True, "yes"],
          ["Either", [["Instance", "Plain", False, "yes"], ["Int"]]],
          # two tuple alternatives: the first converts an early member and then fails on a later one
          ["Either", [["Tuple", [["Float"], ["Int"]]], ["Tuple", [["Int"], ["Str"]]]]],
          ["Either", [["Tuple", [["Float"], ["Float"], ["Int"]]], ["Tuple", [["Int"], ["Int"], ["Str"]]], ["Str"]]],
          ["Tuple", [["Either", [["Tuple", [["Float"], ["Int"]]], ["Tuple", [["Int"], ["Str"]]]]], ["Int"]]]]
    g += [["Instance", "Plain", True, None], ["Instance", "Plain", False, None], ["Type", "Plain", True],
          ["Either", [["Instance", "Plain", False, None], ["Int"]]], ["Tuple", [["Instance", "Plain", True, None], ["Int"]]]]
    for an in (True, False):
        g += [["Instance", "Foo", an, None], ["Instance", "int", an, None], ["Instance", "Foo", an, "yes"],
              ["Instance", "Foo", an, "default"], ["Type", "Foo", an], ["This", an], ["Callable", an]]
    for alts in ([["Int"], ["Str"]], [["Str"], ["Int"]], [["None"], ["Range", 0.0, 1.0, False, False]], [["Float"], ["Int"]],
                 [["Int"], ["Float"], ["Str"], ["None"]], [["Tuple", [["Int"], ["Int"]]], ["List", ["Int"], 0, None]],
                 [["Enum", [1, 2]], ["Instance", "Foo", True, None]], [["CInt"], ["Str"]], [["Bool"], ["Int"]],
                 [["Callable", True], ["Int"]], [["Map", [["yes", 1]]], ["Int"]], [["Complex"], ["Str"]],
                 [["This", True], ["Int"]], [["Range", 0, 3, False, True], ["Range", 0.0, 1.0, True, False]],
                 [["List", ["Int"], 0, None], ["Int"]], [["String", 1, 3, ""], ["Int"]],
                 [["Instance", "Foo", False, None], ["Callable", False]], [["Type", "Foo", True], ["Str"]]):
        g.append(["Either", alts])
        g.append(["Union", alts])
    return g


def may_overflow(v):
    """Does some numeric conversion (int(), float(), complex()) of the value or of a nested item overflow?"""
    if isinstance(v, bool):
        return False
    if isinstance(v, int):
        return abs(v) > 2 ** 53
    if isinstance(v, float):
        return v != v or v in (inf, -inf)
    if isinstance(v, complex):
        return may_overflow(v.real) or may_overflow(v.imag)
    if isinstance(v, (Idx, Flt, Cpx)):
        return isinstance(v.v, (int, float)) and may_overflow(v.v)
    if isinstance(v, (np.generic, fractions.Fraction, decimal.Decimal)):
        return True
    if isinstance(v, (tuple, list, set, frozenset)):
        return any(may_overflow(x) for x in v)
    if isinstance(v, dict):
        return any(may_overflow(x) for x in v) or any(may_overflow(x) for x in v.values())
    return False


def mentions(spec, name):
    if isinstance(spec, list):
        return (len(spec) > 0 and spec[0] == name) or any(mentions(x, name) for x in spec)
    return False


def hazardous(spec, v):
    """Pairs that are skipped because executing them is a resource hazard, not a validation question:
    bytes(n) for a huge int n allocates n bytes."""
    if mentions(spec, "CBytes"):
        def big(x):
            if isinstance(x, int) and not isinstance(x, bool) and abs(x) > 10 ** 6:
                return True
            if isinstance(x, Idx) and isinstance(x.v, int) and abs(x.v) > 10 ** 6:
                return True
            if isinstance(x, (tuple, list, set, frozenset)):
                return any(big(i) for i in x)
            if isinstance(x, dict):
                return any(big(i) for i in x) or any(big(i) for i in x.values())
            return False
        return big(v)
    return False


def spec_id(spec):
    import json
    return json.dumps(spec, separators=(",", ":"), sort_keys=True)
